---------------------------- MODULE KVSeekImpl ----------------------------
(* C09 - IMPLEMENTATION-SHAPED model of the sequential read path of pkg/core/storage:

     MemoryStore.seek            memory_store.go:101-137    (filter + sort of one map)
     seekRangeToPrefixes         store.go:110-124           (range translation for the disk backends)
     boltSeek / LevelDBStore.seek boltdb_store.go:153-192, leveldb_store.go:73-120
     MemCachedStore.Get          memcached_store.go:95-106  (fall through the layers, nil = tombstone)
     prepareSeekMemSnapshot      memcached_store.go:194-224 (filter of the top map, tombstones kept)
     performSeek                 memcached_store.go:234-329 (merge of the sorted snapshot with the lower
                                                             store's ordered stream; SearchDepth; tail loop)
     persist (private / shared)  memcached_store.go:378-438 (sequential effect: PutChangeSet into the lower store)

   performSeek is a state machine over the lower store's stream: its state is the record
   [i, kk, have, out] = (index of the current snapshot item kvMem, the key currently held in kvMem - which is
   the TRIMMED key once the item was emitted with cutPrefix -, haveMem, items passed to `cont` so far); MergeOne
   is the body of mergeFunc for one lower item, MergeTail the loop after ps.Seek returned.

   The state of the model is the stack itself: every stack reachable by Put / Delete / NewLayer / Persist
   within the bounds is visited, and in every state TLC evaluates, for EVERY range of the configured range
   universe (prefix x start x direction x SearchDepth x trimming), Result = Ref (KVStore!SeekRef), and
   Get = Ref for every key.

   Constants describing the code AS IT IS vs named deviations:
     MemBackBound  "Exact"  = in-memory stores keep `suffix <= start` for a backward seek (code as it is);
                   "PrefixInclusive" = they also keep extensions of start, like the disk backends (proposed fix)
     CutStale      TRUE  = kvMem.Key is overwritten by the trimmed key and later compared with a full lower
                           key (code as it is);  FALSE = the comparison uses the untrimmed key (proposed fix)
     BugTail       TRUE  = tail loop starts at iMem instead of iMem-1 (a made-up deviation: non-vacuity)
     Judge         "all" = every range is judged;  "outside" = ranges of the two known defect classes
                           (see ClassA / ClassB) are left out                                              *)
EXTENDS KVStore

CONSTANTS Keys, PrefixSet, StartSet, DepthSet, CutSet, Backends, MaxLayers, MaxEntries,
          MemBackBound, CutStale, BugTail, Judge

VARIABLES backend,      \* "mem" | "bolt" | "leveldb"
          disk,         \* the backend's map (a MemoryStore backend keeps nil entries: TOMB)
          stack         \* sequence of cache layers, bottom first: key -> value | TOMB
vars == <<backend, disk, stack>>

Top == Len(stack)

-----------------------------------------------------------------------------
(* util.BytesPrefix(p).Limit : increment the last byte that is not 0xff and cut there; none if all 0xff *)
NextPrefix(p) ==
    LET nz == {i \in 1..Len(p) : p[i] < 255}
    IN  IF nz = {} THEN <<>>
        ELSE LET i == CHOOSE x \in nz : \A y \in nz : y <= x
             IN  [j \in 1..i |-> IF j = i THEN p[j] + 1 ELSE p[j]]

(* isKeyOK of memory_store.go:108-115 and memcached_store.go:200-207 *)
MemKeyOK(k, r) ==
    /\ BHasPrefix(k, r.prefix)
    /\ LET s == BDrop(k, Len(r.prefix)) IN
          \/ r.start = <<>>
          \/ ~r.back /\ ~BLess(s, r.start)
          \/ r.back /\ (~BLess(r.start, s) \/ (MemBackBound = "PrefixInclusive" /\ BHasPrefix(s, r.start)))

(* sorted stream <<key, value>> of a backend *)
BackendSeek(r) ==
    IF backend = "mem"
    THEN LET ks == SortedKeys({k \in DOMAIN disk : disk[k] # TOMB /\ MemKeyOK(k, r)}, r.back)
         IN  [i \in 1..Len(ks) |-> <<ks[i], disk[ks[i]]>>]
    ELSE LET ps == r.prefix \o r.start
             lo == IF r.back THEN r.prefix ELSE ps
             hi == IF r.back THEN NextPrefix(ps) ELSE NextPrefix(r.prefix)
             ok(k) == /\ ~BLess(k, lo)
                      /\ IF backend = "leveldb" THEN hi = <<>> \/ BLess(k, hi)
                         ELSE /\ BHasPrefix(k, r.prefix)                       \* boltSeek loop condition
                              /\ hi = <<>> \/ (IF r.back THEN BLess(k, hi) ELSE BLeq(k, hi))
             ks == SortedKeys({k \in DOMAIN disk : disk[k] # TOMB /\ ok(k)}, r.back)
         IN  [i \in 1..Len(ks) |-> <<ks[i], disk[ks[i]]>>]

-----------------------------------------------------------------------------
(* performSeek *)
CmpLess(a, b, back) == IF back THEN BLess(b, a) ELSE BLess(a, b)
CutKey(k, r, cut) == IF cut THEN BDrop(k, Len(r.prefix)) ELSE k

MemSnapshot(layer, r) ==        \* prepareSeekMemSnapshot + the sort at the top of performSeek
    LET ks == SortedKeys({k \in DOMAIN layer : MemKeyOK(k, r)}, r.back)
    IN  [i \in 1..Len(ks) |-> [k |-> ks[i], v |-> layer[ks[i]], ex |-> layer[ks[i]] # TOMB]]

MergeInit(memRes) == IF memRes = <<>> THEN [i |-> 0, kk |-> <<>>, have |-> FALSE, out |-> <<>>]
                     ELSE [i |-> 1, kk |-> memRes[1].k, have |-> TRUE, out |-> <<>>]

RECURSIVE MergeOne(_, _, _, _, _)
MergeOne(memRes, st, p, r, cut) ==          \* mergeFunc(k, v) for the lower item p = <<k, v>>
    IF st.have /\ CmpLess(st.kk, p[1], r.back)
    THEN LET it   == memRes[st.i]
             out2 == IF it.ex THEN Append(st.out, <<CutKey(it.k, r, cut), it.v>>) ELSE st.out
             kk2  == IF it.ex /\ cut /\ CutStale THEN CutKey(it.k, r, cut) ELSE it.k
         IN  IF st.i < Len(memRes)
             THEN MergeOne(memRes, [i |-> st.i + 1, kk |-> memRes[st.i + 1].k, have |-> TRUE, out |-> out2], p, r, cut)
             ELSE MergeOne(memRes, [i |-> st.i, kk |-> kk2, have |-> FALSE, out |-> out2], p, r, cut)
    ELSE [st EXCEPT !.out = IF st.kk # p[1] THEN Append(@, <<CutKey(p[1], r, cut), p[2]>>) ELSE @]

RECURSIVE MergeStream(_, _, _, _, _, _)
MergeStream(memRes, st, lower, j, r, cut) ==
    IF j > Len(lower) THEN st ELSE MergeStream(memRes, MergeOne(memRes, st, lower[j], r, cut), lower, j + 1, r, cut)

MergeTail(memRes, st, r, cut) ==
    IF ~st.have THEN st.out
    ELSE LET from == IF BugTail THEN st.i + 1 ELSE st.i
             idx  == SelectSeq([j \in 1..Len(memRes) |-> j], LAMBDA j : j >= from /\ memRes[j].ex)
         IN  st.out \o [n \in 1..Len(idx) |-> <<CutKey(memRes[idx[n]].k, r, cut), memRes[idx[n]].v>>]

RECURSIVE ImplSeekAt(_, _, _)
ImplSeekAt(j, r, cut) ==        \* Seek / SeekAsync on layer j of the stack (0 = the backend)
    IF j = 0 THEN BackendSeek(r)
    ELSE LET memRes == MemSnapshot(stack[j], r)
             lower  == IF r.depth = 0 \/ r.depth > 1
                       THEN ImplSeekAt(j - 1, [r EXCEPT !.depth = IF @ > 1 THEN @ - 1 ELSE 0], FALSE)
                       ELSE <<>>
         IN  MergeTail(memRes, MergeStream(memRes, MergeInit(memRes), lower, 1, r, cut), r, cut)

RECURSIVE ImplGetAt(_, _)
ImplGetAt(j, k) ==
    IF j = 0 THEN (IF k \in DOMAIN disk /\ disk[k] # TOMB THEN disk[k] ELSE NotFound)
    ELSE IF k \in DOMAIN stack[j] THEN (IF stack[j][k] = TOMB THEN NotFound ELSE stack[j][k])
    ELSE ImplGetAt(j - 1, k)

-----------------------------------------------------------------------------
(* the stack as a state machine *)
Entries == Cardinality(DOMAIN disk) + (IF stack = <<>> THEN 0 ELSE
              FoldLeft(LAMBDA a, l : a + Cardinality(DOMAIN l), 0, stack))

Init == backend \in Backends /\ disk = EmptyMap /\ stack = <<EmptyMap>>

Put(k)  == stack' = PutIn(stack, Top, k, <<Top>>) /\ UNCHANGED <<backend, disk>>      \* the value names the layer it was written to
Del(k)  == stack' = PutIn(stack, Top, k, TOMB)    /\ UNCHANGED <<backend, disk>>
Push    == Top < MaxLayers /\ stack' = Append(stack, EmptyMap) /\ UNCHANGED <<backend, disk>>
LowerPut(m) == IF backend = "mem" THEN Overlay(disk, m) ELSE DiskApply(disk, m)        \* MemoryStore keeps nil entries
Flush(i) ==     \* Persist of the shared layer i: PutChangeSet into what is below, fresh maps
    /\ stack[i] # EmptyMap
    /\ disk'  = IF i = 1 THEN LowerPut(stack[1]) ELSE disk
    /\ stack' = FlushLayers(stack, i)
    /\ UNCHANGED backend
Pop ==          \* Persist of a private top layer: it is closed afterwards
    /\ Top >= 2
    /\ stack' = SubSeq(FlushLayers(stack, Top), 1, Top - 1)
    /\ UNCHANGED <<backend, disk>>

IsFlush == (\E i \in 1..Top : Flush(i)) \/ Pop
Next == \/ \E k \in Keys : Put(k) \/ Del(k)
        \/ Push
        \/ IsFlush
Spec == Init /\ [][Next]_vars

Bound == Entries <= MaxEntries

-----------------------------------------------------------------------------
(* the judge *)
AbsDisk == Live(disk)
View(d) == ViewAt(AbsDisk, stack, Top, d)

RangeSet == [prefix : PrefixSet, start : StartSet, back : BOOLEAN, depth : DepthSet]

KeysAnywhere == DOMAIN disk \cup UNION {DOMAIN stack[i] : i \in 1..Top}
(* known class A: a backward seek from a start point while some stored key properly extends prefix ++ start *)
ClassA(r) == /\ r.back /\ r.start # <<>>
             /\ \E k \in KeysAnywhere : BHasPrefix(k, r.prefix \o r.start) /\ k # r.prefix \o r.start
(* known class B: trimming, and a cached key whose trimmed form is itself a key of the range *)
ClassB(r, cut) == /\ cut
                  /\ \E km \in DOMAIN stack[Top], kp \in KeysAnywhere :
                        BHasPrefix(km, r.prefix) /\ BDrop(km, Len(r.prefix)) = kp

Judged(r, cut) == Judge = "all" \/ ~(ClassA(r) \/ ClassB(r, cut))

SeekOK(r, cut) == ImplSeekAt(Top, r, cut) = SeekRef(View(r.depth), r, IF cut THEN Len(r.prefix) ELSE 0)

SeekExact == \A r \in RangeSet, cut \in CutSet : Judged(r, cut) => SeekOK(r, cut)
GetExact  == \A k \in Keys : ImplGetAt(Top, k) = GetRef(View(0), k)
(* "flushing a layer at any moment changes no answer": the one map is unchanged by every flush step *)
FlushKeepsView == [][IsFlush => ViewAt(Live(disk'), stack', Len(stack'), 0) = View(0)]_vars
=============================================================================
