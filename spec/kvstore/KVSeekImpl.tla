---------------------------- MODULE KVSeekImpl ----------------------------
(* C09 - IMPLEMENTATION-SHAPED model of the sequential read path of pkg/core/storage:

     MemoryStore.seek             memory_store.go:101-137    (filter + sort of one map)
     seekRangeToPrefixes          store.go:110-124           (range translation for the disk backends)
     boltSeek / LevelDBStore.seek boltdb_store.go:153-192, leveldb_store.go:73-120
     MemCachedStore.Get           memcached_store.go:95-106  (fall through the layers, nil = tombstone)
     prepareSeekMemSnapshot       memcached_store.go:194-224 (filter of the top map, tombstones kept)
     performSeek                  memcached_store.go:234-329 (merge of the sorted snapshot with the lower
                                                              store's ordered stream; SearchDepth; tail loop)
     persist (private / shared)   memcached_store.go:378-438 (sequential effect: PutChangeSet into the lower store)

   performSeek is a state machine over the lower store's stream: its state is the record
   [i, kk, have, out] = (index of the current snapshot item kvMem; the key currently held in kvMem - the TRIMMED
   key once the item was emitted with cutPrefix -; haveMem; the items passed to `cont` so far).  MergeOne is the
   body of mergeFunc for one lower item, MergeTail the loop after ps.Seek returned.

   The state of the model is the stack itself: every stack reachable by Put / Delete / NewLayer / Persist within
   the bounds is visited, and in every state TLC evaluates, for EVERY range of the configured universe
   (prefix x start x direction x SearchDepth x trimming), Result = Ref, and Get = Ref for every key.

   Representation.  Keys are byte strings (constant Keys); to keep TLC fast a key is represented in the state by
   its index in KeySeq (the universe sorted with KVStore!BLess, so index order = lexicographic order), and every
   predicate on byte strings that the code evaluates (isKeyOK, the disk range translation, the trimmed-key
   equality) as well as the ABSTRACT range predicate KVStore!InRange is tabulated once, at constant level, by
   TLC itself from the byte-string definitions.  Items of results are <<key index, value>>; trimming maps every
   key of a result through the same injective function on both sides and is therefore not applied to the compared
   sequences (it matters only through the stale comparison, see CutStale).

   Constants describing the code AS IT IS vs named deviations:
     MemBackBound  "Exact"  = in-memory stores keep `suffix <= start` for a backward seek (code as it is);
                   "PrefixInclusive" = they also keep extensions of start, like the disk backends (proposed fix)
     CutStale      TRUE  = kvMem.Key is overwritten by the trimmed key and later compared with a full lower key
                           (code as it is);  FALSE = the comparison uses the untrimmed key (proposed fix)
     BugTail       TRUE  = tail loop starts at iMem instead of iMem-1 (a made-up deviation: non-vacuity self-test)
     Judge         "all" = every range is judged;  "outside" = ranges of the two known defect classes
                           (ClassA / ClassB) are left out                                                    *)
EXTENDS KVStore, FiniteSetsExt, Json

CONSTANTS Keys, PrefixSet, StartSet, DepthSet, CutSet, Backends, MaxLayers, MaxEntries,
          MemBackBound, CutStale, BugTail, Judge

VARIABLES backend,      \* "mem" | "bolt" | "leveldb"
          disk,         \* the backend's map: key index -> value (a MemoryStore backend keeps nil entries: TOMB)
          stack         \* sequence of cache layers, bottom first: key index -> value | TOMB
vars == <<backend, disk, stack>>

Top == Len(stack)

-----------------------------------------------------------------------------
(* byte-string level definitions of what the code computes *)

(* util.BytesPrefix(p).Limit : increment the last byte that is not 0xff and cut there; none if all 0xff *)
NextPrefix(p) ==
    LET nz == {i \in 1..Len(p) : p[i] < 255}
    IN  IF nz = {} THEN <<>>
        ELSE LET i == CHOOSE x \in nz : \A y \in nz : y <= x
             IN  [j \in 1..i |-> IF j = i THEN p[j] + 1 ELSE p[j]]

(* isKeyOK of memory_store.go:108-115 and memcached_store.go:200-207 *)
MemKeyOK(k, r) ==
    /\ BHasPrefix(k, r.prefix)
    /\ LET s == BDrop(k, Len(r.prefix)) IN
          \/ r.start = <<>>
          \/ ~r.back /\ ~BLess(s, r.start)
          \/ r.back /\ (~BLess(r.start, s) \/ (MemBackBound = "PrefixInclusive" /\ BHasPrefix(s, r.start)))

(* seekRangeToPrefixes + the iteration bounds of LevelDB (half-open iterator range) and of boltSeek (cursor
   positioned at Start resp. just below Limit, loop while HasPrefix and k <= Limit) *)
DiskKeyOK(b, k, r) ==
    LET ps == r.prefix \o r.start
        lo == IF r.back THEN r.prefix ELSE ps
        hi == IF r.back THEN NextPrefix(ps) ELSE NextPrefix(r.prefix)
    IN  /\ ~BLess(k, lo)
        /\ IF b = "leveldb" THEN hi = <<>> \/ BLess(k, hi)
           ELSE /\ BHasPrefix(k, r.prefix)
                /\ hi = <<>> \/ (IF r.back THEN BLess(k, hi) ELSE BLeq(k, hi))

-----------------------------------------------------------------------------
(* tabulation *)
KeySeq == SortedKeys(Keys, FALSE)
NK     == Len(KeySeq)
Ids    == 1..NK
IdSeq  == [i \in 1..NK |-> i]
IdOf(t) == IF t \in Keys THEN CHOOSE j \in Ids : KeySeq[j] = t ELSE 0
ASSUME \A i \in 1..(NK - 1) : BLess(KeySeq[i], KeySeq[i + 1])

RangeSeq == SetToSeq([prefix : PrefixSet, start : StartSet, back : BOOLEAN])
NR       == Len(RangeSeq)
RIds     == 1..NR
RefIn  == [rid \in RIds |-> {i \in Ids : InRange(KeySeq[i], RangeSeq[rid])}]             \* the ABSTRACT predicate
MemIn  == [rid \in RIds |-> {i \in Ids : MemKeyOK(KeySeq[i], RangeSeq[rid])}]
DiskIn == [b \in {"bolt", "leveldb"} |-> [rid \in RIds |-> {i \in Ids : DiskKeyOK(b, KeySeq[i], RangeSeq[rid])}]]
TrimId == [rid \in RIds |-> [i \in Ids |->
              IF BHasPrefix(KeySeq[i], RangeSeq[rid].prefix) THEN IdOf(BDrop(KeySeq[i], Len(RangeSeq[rid].prefix))) ELSE 0]]
ExtIn  == [rid \in RIds |-> LET ps == RangeSeq[rid].prefix \o RangeSeq[rid].start
                            IN  {i \in Ids : BHasPrefix(KeySeq[i], ps) /\ KeySeq[i] # ps}]
Back(rid)     == RangeSeq[rid].back
HasStart(rid) == RangeSeq[rid].start # <<>>

Ordered(S, back) == LET a == SelectSeq(IdSeq, LAMBDA i : i \in S) IN IF back THEN Reverse(a) ELSE a

-----------------------------------------------------------------------------
(* sorted stream <<key, value>> of the backend *)
BackendSeek(rid) ==
    LET ok == IF backend = "mem" THEN MemIn[rid] ELSE DiskIn[backend][rid]
        ks == Ordered({k \in DOMAIN disk : disk[k] # TOMB} \cap ok, Back(rid))
    IN  [i \in 1..Len(ks) |-> <<ks[i], disk[ks[i]]>>]

(* performSeek *)
CmpLess(a, b, back) == IF back THEN b < a ELSE a < b

MemSnapshot(layer, rid) ==      \* prepareSeekMemSnapshot + the sort at the top of performSeek
    LET ks == Ordered(DOMAIN layer \cap MemIn[rid], Back(rid))
    IN  [i \in 1..Len(ks) |-> [k |-> ks[i], v |-> layer[ks[i]], ex |-> layer[ks[i]] # TOMB]]

(* kk = <<"full", id>> : kvMem.Key is the untrimmed key id;  <<"cut", id>> : it is the trimmed key, equal to the
   universe key id (0 = equal to no key of the universe);  <<"nil">> : zero value *)
MergeInit(memRes) == IF memRes = <<>> THEN [i |-> 0, kk |-> <<"nil", 0>>, have |-> FALSE, out |-> <<>>]
                     ELSE [i |-> 1, kk |-> <<"full", memRes[1].k>>, have |-> TRUE, out |-> <<>>]

KeyEq(kk, p, rid) == kk[2] = p /\ kk[1] # "nil"     \* bytes.Equal(kvMem.Key, kvPs.Key)

RECURSIVE MergeOne(_, _, _, _, _)
MergeOne(memRes, st, p, rid, cut) ==        \* mergeFunc(k, v) for the lower item p = <<k, v>>
    IF st.have /\ CmpLess(st.kk[2], p[1], Back(rid))
    THEN LET it   == memRes[st.i]
             out2 == IF it.ex THEN Append(st.out, <<it.k, it.v>>) ELSE st.out
             kk2  == IF it.ex /\ cut /\ CutStale THEN <<"cut", TrimId[rid][it.k]>> ELSE <<"full", it.k>>
         IN  IF st.i < Len(memRes)
             THEN MergeOne(memRes, [i |-> st.i + 1, kk |-> <<"full", memRes[st.i + 1].k>>, have |-> TRUE, out |-> out2], p, rid, cut)
             ELSE MergeOne(memRes, [i |-> st.i, kk |-> kk2, have |-> FALSE, out |-> out2], p, rid, cut)
    ELSE [st EXCEPT !.out = IF ~KeyEq(st.kk, p[1], rid) THEN Append(@, p) ELSE @]

RECURSIVE MergeStream(_, _, _, _, _, _)
MergeStream(memRes, st, lower, j, rid, cut) ==
    IF j > Len(lower) THEN st ELSE MergeStream(memRes, MergeOne(memRes, st, lower[j], rid, cut), lower, j + 1, rid, cut)

MergeTail(memRes, st) ==
    IF ~st.have THEN st.out
    ELSE LET from == IF BugTail THEN st.i + 1 ELSE st.i
             idx  == SelectSeq([j \in 1..Len(memRes) |-> j], LAMBDA j : j >= from /\ memRes[j].ex)
         IN  st.out \o [n \in 1..Len(idx) |-> <<memRes[idx[n]].k, memRes[idx[n]].v>>]

RECURSIVE ImplSeekAt(_, _, _, _)
LowerStream(j, rid, depth) ==           \* what ps.Seek(rng, mergeFunc) delivers to layer j (nothing if SearchDepth = 1)
    IF depth = 0 \/ depth > 1 THEN ImplSeekAt(j - 1, rid, IF depth > 1 THEN depth - 1 ELSE 0, FALSE) ELSE <<>>
MergeAll(memRes, lower, rid, cut) == MergeTail(memRes, MergeStream(memRes, MergeInit(memRes), lower, 1, rid, cut))
ImplSeekAt(j, rid, depth, cut) ==       \* Seek / SeekAsync on layer j of the stack (0 = the backend)
    IF j = 0 THEN BackendSeek(rid)
    ELSE MergeAll(MemSnapshot(stack[j], rid), LowerStream(j, rid, depth), rid, cut)

RECURSIVE ImplGetAt(_, _)
ImplGetAt(j, k) ==
    IF j = 0 THEN (IF k \in DOMAIN disk /\ disk[k] # TOMB THEN disk[k] ELSE NotFound)
    ELSE IF k \in DOMAIN stack[j] THEN (IF stack[j][k] = TOMB THEN NotFound ELSE stack[j][k])
    ELSE ImplGetAt(j - 1, k)

-----------------------------------------------------------------------------
(* the stack as a state machine *)
Entries == Cardinality(DOMAIN disk) + FoldLeft(LAMBDA a, l : a + Cardinality(DOMAIN l), 0, stack)

Init == backend \in Backends /\ disk = EmptyMap /\ stack = <<EmptyMap>>

Put(k)  == stack' = PutIn(stack, Top, k, <<Top>>) /\ UNCHANGED <<backend, disk>>      \* the value names the layer it was written to
Del(k)  == stack' = PutIn(stack, Top, k, TOMB)    /\ UNCHANGED <<backend, disk>>
Push    == Top < MaxLayers /\ stack' = Append(stack, EmptyMap) /\ UNCHANGED <<backend, disk>>
LowerPut(m) == IF backend = "mem" THEN Overlay(disk, m) ELSE DiskApply(disk, m)        \* MemoryStore keeps nil entries
Flush(i) ==     \* Persist of the shared layer i: PutChangeSet into what is below, fresh maps
    /\ stack[i] # EmptyMap
    /\ disk'  = IF i = 1 THEN LowerPut(stack[1]) ELSE disk
    /\ stack' = FlushLayers(stack, i)
    /\ UNCHANGED backend
Pop ==          \* Persist of a private top layer: it is closed afterwards
    /\ Top >= 2
    /\ stack' = SubSeq(FlushLayers(stack, Top), 1, Top - 1)
    /\ UNCHANGED <<backend, disk>>

IsFlush == (\E i \in 1..Top : Flush(i)) \/ Pop
Next == \/ \E k \in Ids : Put(k) \/ Del(k)
        \/ Push
        \/ IsFlush
Spec == Init /\ [][Next]_vars

Bound == Entries <= MaxEntries

(* Direct enumeration of the stacks (one state each, no transitions needed): every assignment of at most
   MaxEntries entries to the slots (level, key), level 0 = backend; the value of a put names its level.  Every
   such stack is reachable by the actions above; the actions produce, in addition, the same stacks with the value
   labels permuted, which no part of the read path can tell apart (values are only copied). *)
SlotMap(f, lvl) == [k \in {s[2] : s \in {x \in DOMAIN f : x[1] = lvl}} |-> IF f[<<lvl, k>>] = "put" THEN <<lvl>> ELSE TOMB]
(* two phases so that TLC's workers share the work: initial states fix backend, stack height and the backend's
   content; one step fills the cache layers *)
EnumInit ==
    /\ backend \in Backends
    /\ \E top \in 1..MaxLayers, n \in 0..MaxEntries : \E S \in kSubset(n, Ids) :
          /\ disk = [k \in S |-> <<0>>]
          /\ stack = [lvl \in 1..top |-> EmptyMap]
EnumFill ==
    /\ \A lvl \in 1..Top : stack[lvl] = EmptyMap
    /\ \E n \in 1..(MaxEntries - Cardinality(DOMAIN disk)) : \E S \in kSubset(n, (1..Top) \X Ids) : \E f \in [S -> {"put", "tomb"}] :
          stack' = [lvl \in 1..Top |-> SlotMap(f, lvl)]
    /\ UNCHANGED <<backend, disk>>
EnumSpec == EnumInit /\ [][EnumFill]_vars

-----------------------------------------------------------------------------
(* the judge *)
View(d) == ViewAt(Live(disk), stack, Top, d)

(* KVStore!SeekRef over the tabulated abstract range predicate *)
RefSeek(view, rid) == LET ks == Ordered(DOMAIN view \cap RefIn[rid], Back(rid))
                      IN  [i \in 1..Len(ks) |-> <<ks[i], view[ks[i]]>>]

KeysAnywhere == DOMAIN disk \cup UNION {DOMAIN stack[i] : i \in 1..Top}
(* known class A: a backward seek from a start point while some stored key properly extends prefix ++ start *)
ClassA(rid) == Back(rid) /\ HasStart(rid) /\ ExtIn[rid] \cap KeysAnywhere # {}
(* known class B: trimming, and a cached key whose trimmed form is itself a stored key *)
ClassB(rid, cut) == cut /\ \E km \in DOMAIN stack[Top] : TrimId[rid][km] \in KeysAnywhere

Judged(rid, cut) == Judge = "all" \/ ~(ClassA(rid) \/ ClassB(rid, cut))

SeekOK(rid, d, cut, memRes, lower, ref) == Judged(rid, cut) => MergeAll(memRes, lower, rid, cut) = ref
SeekExact == LET views == [d \in DepthSet |-> View(d)]
             IN  \A rid \in RIds :
                    LET memRes == MemSnapshot(stack[Top], rid) IN
                    \A d \in DepthSet :
                       LET lower == LowerStream(Top, rid, d)
                           ref   == RefSeek(views[d], rid)
                       IN  \A cut \in CutSet : SeekOK(rid, d, cut, memRes, lower, ref)
GetExact  == LET v == View(0) IN \A k \in Ids : ImplGetAt(Top, k) = GetRef(v, k)
(* The range translation of the backends, decided at the level of the tabulated predicates (so for EVERY content
   of the backend over the key universe): the disk backends select exactly the keys of the abstract range; the
   in-memory filter does so with the proposed bound, and with the bound of the code as it is it loses exactly the
   proper extensions of prefix ++ start of a backward seek. *)
TablesExact ==
    /\ \A rid \in RIds : DiskIn["bolt"][rid] = RefIn[rid] /\ DiskIn["leveldb"][rid] = RefIn[rid]
    /\ \A rid \in RIds : MemIn[rid] = IF MemBackBound = "Exact" /\ Back(rid) /\ HasStart(rid)
                                      THEN RefIn[rid] \ ExtIn[rid] ELSE RefIn[rid]
(* "flushing a layer at any moment changes no answer": the one map is unchanged by every flush step *)
FlushKeepsView == [][IsFlush => ViewAt(Live(disk'), stack', Len(stack'), 0) = View(0)]_vars

-----------------------------------------------------------------------------
(* Counterexample extraction: with Judge = "outside" the ranges of the known classes are not judged by SeekExact;
   DivergentCases (always true) prints every (stack, range) of those classes on which the model of the code as it
   is differs from the reference.  The runner replays them on the real stores, where they are judged. *)
MapOut(m) == LET ks == Ordered(DOMAIN m, FALSE) IN [i \in 1..Len(ks) |-> <<KeySeq[ks[i]], m[ks[i]]>>]
ResOut(res) == [i \in 1..Len(res) |-> <<KeySeq[res[i][1]], res[i][2]>>]
CaseOut(rid, d, cut, impl, ref) ==
    [backend |-> backend, disk |-> MapOut(disk), stack |-> [l \in 1..Top |-> MapOut(stack[l])],
     prefix |-> RangeSeq[rid].prefix, start |-> RangeSeq[rid].start, back |-> Back(rid), depth |-> d, cut |-> cut,
     impl |-> ResOut(impl), ref |-> ResOut(ref),
     cls |-> (IF ClassA(rid) THEN "A" ELSE "") \o (IF ClassB(rid, cut) THEN "B" ELSE "")]
DivergentCases ==
    LET views == [d \in DepthSet |-> View(d)]
    IN  \A rid \in RIds :
           LET memRes == MemSnapshot(stack[Top], rid) IN
           \A d \in DepthSet :
              LET lower == LowerStream(Top, rid, d)
                  ref   == RefSeek(views[d], rid)
              IN  \A cut \in CutSet :
                     \/ ~(ClassA(rid) \/ ClassB(rid, cut))
                     \/ LET impl == MergeAll(memRes, lower, rid, cut)
                        IN  impl = ref \/ PrintT(<<"@@CASE@@", ToJson(CaseOut(rid, d, cut, impl, ref))>>)
=============================================================================
