------------------------------ MODULE KVStore ------------------------------
(* C09 - the ABSTRACT level (the judge).

   "Whatever stack of in-memory cache layers sits on whichever backend, point reads and range scans
    return exactly what a single ordered map holding the net effect of all writes would return, in
    order, without omissions or duplicates.  Flushing a layer changes no answer."

   Keys and values are byte strings = sequences over 0..255.  A layer is a finite map from keys to
   values or TOMB (a pending deletion); the backend (disk) is a finite map from keys to values.
   All operators are pure (they take the maps as arguments) so that the implementation-shaped model
   (KVSeekImpl), the concurrent model (KVPersistConc) and the trace judges (KVTrace, KVConcTrace)
   use literally the same definitions.

   Range semantics (storage.SeekRange): a key is in the range iff it has the prefix and
     forward : suffix >= Start
     backward: suffix <= Start, or suffix EXTENDS Start          (BackwardBound = "PrefixInclusive")
   (Start empty = no bound).  The backward bound is the one of the production backends (BoltDB /
   LevelDB, store.go seekRangeToPrefixes: upper bound BytesPrefix(prefix ++ start)) on which
   dao.SeekNEP17TransferLog relies; DESIGN.md section 4 C09 fixes it as the reference.
   BackwardBound = "Exact" (suffix <= Start only) exists to describe the other reading.            *)
EXTENDS Integers, Sequences, FiniteSets, SequencesExt, TLC

CONSTANT BackwardBound      \* "PrefixInclusive" (reference) | "Exact"

TOMB     == <<-1>>          \* pending deletion (not a byte string: bytes are 0..255)
NotFound == <<-2>>          \* answer of a point read for an absent key

-----------------------------------------------------------------------------
(* byte strings *)
BMin(a, b) == IF a < b THEN a ELSE b
BLess(a, b) ==      \* strict lexicographic order (bytes.Compare(a, b) < 0)
    LET n == BMin(Len(a), Len(b))
        d == {i \in 1..n : a[i] # b[i]}
    IN  IF d = {} THEN Len(a) < Len(b)
        ELSE LET i == CHOOSE x \in d : \A y \in d : x <= y IN a[i] < b[i]
BLeq(a, b) == a = b \/ BLess(a, b)
BHasPrefix(k, p) == Len(p) <= Len(k) /\ SubSeq(k, 1, Len(p)) = p
BDrop(k, n) == SubSeq(k, n + 1, Len(k))

-----------------------------------------------------------------------------
(* maps *)
EmptyMap == <<>>
Overlay(lower, l) == [k \in (DOMAIN lower \cup DOMAIN l) |-> IF k \in DOMAIN l THEN l[k] ELSE lower[k]]
RECURSIVE FoldLayers(_, _)
FoldLayers(ls, base) == IF ls = <<>> THEN base ELSE FoldLayers(Tail(ls), Overlay(base, Head(ls)))   \* bottom first
Live(m) == [k \in {x \in DOMAIN m : m[x] # TOMB} |-> m[k]]

(* The one ordered map seen by a reader standing on layer `at` (0 = the backend itself) of the stack
   `layers` (bottom first) over `disk`, looking `depth` cache layers deep (0 = everything; a depth that
   reaches below the lowest cache layer is everything, too). *)
ViewAt(disk, layers, at, depth) ==
    IF depth = 0 \/ depth > at
    THEN Live(FoldLayers(SubSeq(layers, 1, at), disk))
    ELSE Live(FoldLayers(SubSeq(layers, at - depth + 1, at), EmptyMap))

-----------------------------------------------------------------------------
(* ranges: r = [prefix, start, back] *)
InRange(k, r) ==
    /\ BHasPrefix(k, r.prefix)
    /\ LET s == BDrop(k, Len(r.prefix)) IN
          \/ r.start = <<>>
          \/ ~r.back /\ ~BLess(s, r.start)
          \/ r.back /\ (~BLess(r.start, s) \/ (BackwardBound = "PrefixInclusive" /\ BHasPrefix(s, r.start)))

SortedKeys(S, back) == LET a == SetToSortSeq(S, BLess) IN IF back THEN Reverse(a) ELSE a

(* The specified answer of a range scan over the map `view`: every key of the range exactly once, in
   (reverse) lexicographic order, with its value; `cutlen` leading bytes trimmed from every key. *)
SeekRef(view, r, cutlen) ==
    LET ks == SortedKeys({k \in DOMAIN view : InRange(k, r)}, r.back)
    IN  [i \in 1..Len(ks) |-> <<BDrop(ks[i], cutlen), view[ks[i]]>>]

GetRef(view, k) == IF k \in DOMAIN view THEN view[k] ELSE NotFound

\* a map written out as the sorted sequence of its <<key, value>> pairs (JSON-able)
MapPairs(m) == LET ks == SortedKeys(DOMAIN m, FALSE) IN [i \in 1..Len(ks) |-> <<ks[i], m[ks[i]]>>]

-----------------------------------------------------------------------------
(* effects of writes on the abstract state *)
PutIn(layers, i, k, v)   == [layers EXCEPT ![i] = Overlay(@, (k :> v))]
BatchIn(layers, i, m)    == [layers EXCEPT ![i] = Overlay(@, m)]
DiskApply(disk, m)       == LET o == Overlay(disk, m) IN [k \in {x \in DOMAIN o : o[x] # TOMB} |-> o[k]]
(* flushing layer i into what is below it; the layer is left empty *)
FlushLayers(layers, i)   == IF i = 1 THEN [layers EXCEPT ![1] = EmptyMap]
                            ELSE [layers EXCEPT ![i] = EmptyMap, ![i - 1] = Overlay(@, layers[i])]
FlushDisk(disk, layers, i) == IF i = 1 THEN DiskApply(disk, layers[1]) ELSE disk

-----------------------------------------------------------------------------
(* Readers running concurrently with writers and flushes.

   `views` is the sequence of contents of the one map: views[1] initially, views[w + 1] after the w-th committed
   write (a write is an atomic batch, possibly of one key); flushes are not in it - they change no answer.
   bkeys[w] is the key set of the w-th batch.  A read (point read or range scan, here over the keys KS) that was
   invoked when the map was views[from] and returned when it was views[to] answered `res` (a map).
   Explain(k) = the instants of the interval whose content agrees with the answer on key k.                 *)
Explain(views, from, to, res, k) == {i \in from..to : GetRef(views[i], k) = GetRef(res, k)}

(* "never see a committed key temporarily missing": a key present throughout the interval is in the answer *)
NeverMissingP(views, from, to, res, KS) ==
    \A k \in KS : (\A i \in from..to : k \in DOMAIN views[i]) => k \in DOMAIN res
(* "never a stale value": what is answered for a key was its state at some instant of the interval *)
NoStaleP(views, from, to, res, KS) == \A k \in KS : Explain(views, from, to, res, k) # {}
(* "never half of a batch": no batch committed during the interval is reflected for one of its keys and not yet
   for another one (w ranges over the writes of the interval; views[w + 1] is the first content including it) *)
NoHalfBatchP(views, bkeys, from, to, res, KS) ==
    \A w \in from..(to - 1) :
       ~ \E k1 \in bkeys[w] \cap KS, k2 \in bkeys[w] \cap KS :
            LET e1 == Explain(views, from, to, res, k1)
                e2 == Explain(views, from, to, res, k2)
            IN  /\ e1 # {} /\ e2 # {}
                /\ \A i \in e1 : i >= w + 1          \* k1 is answered as of the batch or later
                /\ \A i \in e2 : i <= w              \* k2 is answered as of before the batch
(* stronger, NOT part of the property statement (recorded as information only): the whole answer is the content
   at one instant of the interval *)
SnapshotP(views, from, to, res, KS) ==
    \E i \in from..to : \A k \in KS : GetRef(views[i], k) = GetRef(res, k)
=============================================================================
