------------------------------ MODULE KVStore ------------------------------
(* C09 - the ABSTRACT level (the judge).

   "Whatever stack of in-memory cache layers sits on whichever backend, point reads and range scans
    return exactly what a single ordered map holding the net effect of all writes would return, in
    order, without omissions or duplicates.  Flushing a layer changes no answer."

   Keys and values are byte strings = sequences over 0..255.  A layer is a finite map from keys to
   values or TOMB (a pending deletion); the backend (disk) is a finite map from keys to values.
   All operators are pure (they take the maps as arguments) so that the implementation-shaped model
   (KVSeekImpl), the concurrent model (KVPersistConc) and the trace judges (KVTrace, KVConcTrace)
   use literally the same definitions.

   Range semantics (storage.SeekRange): a key is in the range iff it has the prefix and
     forward : suffix >= Start
     backward: suffix <= Start, or suffix EXTENDS Start          (BackwardBound = "PrefixInclusive")
   (Start empty = no bound).  The backward bound is the one of the production backends (BoltDB /
   LevelDB, store.go seekRangeToPrefixes: upper bound BytesPrefix(prefix ++ start)) on which
   dao.SeekNEP17TransferLog relies; DESIGN.md section 4 C09 fixes it as the reference.
   BackwardBound = "Exact" (suffix <= Start only) exists to describe the other reading.            *)
EXTENDS Integers, Sequences, FiniteSets, SequencesExt, TLC

CONSTANT BackwardBound      \* "PrefixInclusive" (reference) | "Exact"

TOMB     == <<-1>>          \* pending deletion (not a byte string: bytes are 0..255)
NotFound == <<-2>>          \* answer of a point read for an absent key

-----------------------------------------------------------------------------
(* byte strings *)
BMin(a, b) == IF a < b THEN a ELSE b
BLess(a, b) ==      \* strict lexicographic order (bytes.Compare(a, b) < 0)
    LET n == BMin(Len(a), Len(b))
        d == {i \in 1..n : a[i] # b[i]}
    IN  IF d = {} THEN Len(a) < Len(b)
        ELSE LET i == CHOOSE x \in d : \A y \in d : x <= y IN a[i] < b[i]
BLeq(a, b) == a = b \/ BLess(a, b)
BHasPrefix(k, p) == Len(p) <= Len(k) /\ SubSeq(k, 1, Len(p)) = p
BDrop(k, n) == SubSeq(k, n + 1, Len(k))

-----------------------------------------------------------------------------
(* maps *)
EmptyMap == <<>>
Overlay(lower, l) == [k \in (DOMAIN lower \cup DOMAIN l) |-> IF k \in DOMAIN l THEN l[k] ELSE lower[k]]
RECURSIVE FoldLayers(_, _)
FoldLayers(ls, base) == IF ls = <<>> THEN base ELSE FoldLayers(Tail(ls), Overlay(base, Head(ls)))   \* bottom first
Live(m) == [k \in {x \in DOMAIN m : m[x] # TOMB} |-> m[k]]

(* The one ordered map seen by a reader standing on layer `at` (0 = the backend itself) of the stack
   `layers` (bottom first) over `disk`, looking `depth` cache layers deep (0 = everything; a depth that
   reaches below the lowest cache layer is everything, too). *)
ViewAt(disk, layers, at, depth) ==
    IF depth = 0 \/ depth > at
    THEN Live(FoldLayers(SubSeq(layers, 1, at), disk))
    ELSE Live(FoldLayers(SubSeq(layers, at - depth + 1, at), EmptyMap))

-----------------------------------------------------------------------------
(* ranges: r = [prefix, start, back] *)
InRange(k, r) ==
    /\ BHasPrefix(k, r.prefix)
    /\ LET s == BDrop(k, Len(r.prefix)) IN
          \/ r.start = <<>>
          \/ ~r.back /\ ~BLess(s, r.start)
          \/ r.back /\ (~BLess(r.start, s) \/ (BackwardBound = "PrefixInclusive" /\ BHasPrefix(s, r.start)))

SortedKeys(S, back) == LET a == SetToSortSeq(S, BLess) IN IF back THEN Reverse(a) ELSE a

(* The specified answer of a range scan over the map `view`: every key of the range exactly once, in
   (reverse) lexicographic order, with its value; `cutlen` leading bytes trimmed from every key. *)
SeekRef(view, r, cutlen) ==
    LET ks == SortedKeys({k \in DOMAIN view : InRange(k, r)}, r.back)
    IN  [i \in 1..Len(ks) |-> <<BDrop(ks[i], cutlen), view[ks[i]]>>]

GetRef(view, k) == IF k \in DOMAIN view THEN view[k] ELSE NotFound

-----------------------------------------------------------------------------
(* effects of writes on the abstract state *)
PutIn(layers, i, k, v)   == [layers EXCEPT ![i] = Overlay(@, (k :> v))]
BatchIn(layers, i, m)    == [layers EXCEPT ![i] = Overlay(@, m)]
DiskApply(disk, m)       == LET o == Overlay(disk, m) IN [k \in {x \in DOMAIN o : o[x] # TOMB} |-> o[k]]
(* flushing layer i into what is below it; the layer is left empty *)
FlushLayers(layers, i)   == IF i = 1 THEN [layers EXCEPT ![1] = EmptyMap]
                            ELSE [layers EXCEPT ![i] = EmptyMap, ![i - 1] = Overlay(@, layers[i])]
FlushDisk(disk, layers, i) == IF i = 1 THEN DiskApply(disk, layers[1]) ELSE disk
=============================================================================
