SPECIFICATION EnumSpec
CONSTANTS
  BackwardBound = "PrefixInclusive"
  Keys <- KT
  PrefixSet <- KT
  StartSet <- Suf5
  DepthSet <- D012
  CutSet <- BB
  Backends <- AllBackends
  MaxLayers = 1
  MaxEntries = 0
  MemBackBound = "PrefixInclusive"
  CutStale = FALSE
  BugTail = FALSE
  Judge = "all"
INVARIANTS TablesExact
CHECK_DEADLOCK FALSE
