--------------------------- MODULE HeaderHashesSim ---------------------------
(* Schedule generator for harness/c02hdrhashes: behaviours of HeaderHashesImpl at the granularity of the
   operations the driver places on a real core.Blockchain (tlc -simulate; the history is printed as JSON when
   it reaches Depth entries).  Heights are MODEL heights (Page = 3): tools/checks/c02_headerhashes.py maps a
   model height m to the real height 2000 * (m div 3) + <<0, 1, 1999>>[m mod 3 + 1], so that every model
   phase (page start, start + 1, last of the page) becomes the real page edge of the same phase and a batch
   of n model headers becomes a real batch of 1 / 1998 / 1999 / 2000 / 2001 / ... headers crossing the 2000
   boundary in the same phase.
     hdr to     bc.AddHeaders(headers hh+1 .. to) in ONE call
     blk to     bc.AddBlock for every block up to `to`
     flush      bc.VerifPersist()  (persist + GC)
     stop       clean stop and reopen
     crash at   power loss: at = "" between operations (the write cache is lost), "gc" after the persist batch
                of the last flush but before its GC batches, "r1"/"r2"/"r3" before that stage batch of the
                Reset in progress; the node is reopened on the database image of that batch prefix
     reset h    bc.Reset(h) as the command line does it
     look i     GetHeaderHash sweep over all indexes (pulls the stored pages into the LRU)
     retrust t  clean stop, then the node is reopened with TrustedHeader t configured (and stays so)
   The silent model steps (GC after Persist, Restart, the stage batches of Reset) are not printed: the
   driver's operations contain them. *)
EXTENDS HeaderHashesImpl, Json

CONSTANT Depth
VARIABLE hist

Rec(x) == hist' = Append(hist, x)
Quiet  == hist' = hist

SHdr(n)  == AddHeaders(n) /\ Rec([op |-> "hdr", to |-> hh + n])
SBlk     == AddBlock /\ Rec([op |-> "blk", to |-> bh + 1])
SFlush   == Persist /\ Rec([op |-> "flush"])
SStop    == Stop /\ Rec([op |-> "stop"])
SCrash   == Crash /\ Rec([op |-> "crash", at |-> IF pc = <<>> THEN "" ELSE pc[1].k])
SReset(h) == Reset(h) /\ Rec([op |-> "reset", h |-> h])
SRetrust(t) == Retrust(t) /\ Rec([op |-> "retrust", t |-> t])
SLook(i) == Len(hist) % 4 = 3 /\ Lookup(i) /\ Rec([op |-> "look", i |-> i])
Silent   == (GC \/ Restart \/ R1 \/ R2 \/ R3) /\ Quiet

SimInit == Init /\ hist = <<[op |-> "init", t |-> tr, page |-> Page, rub |-> RUB]>>
\* a node that is down or inside a multi-batch operation can only take the silent step (or crash)
Busy == ~up \/ pc # <<>>
SimBase ==
    /\ tr' = tr /\ base' = base
    /\ IF Busy THEN (Silent \/ Silent \/ Silent \/ SCrash)
       ELSE \/ \E n \in 1..(Page + 1) : SHdr(n)
            \/ \E n \in 2..(Page + 1) : SHdr(n)
            \/ SBlk \/ SBlk \/ SBlk
            \/ SFlush \/ SFlush
            \/ SStop
            \/ SCrash
            \/ \E h \in 0..MaxH : SReset(h)
            \/ \E i \in 0..MaxH : SLook(i)
SimRetrust == ~Busy /\ \E t \in RSet : SRetrust(t)
SimNext == SimBase \/ SimRetrust
SimSpec == SimInit /\ [][SimNext]_<<vars, hist>>
Emit == Len(hist) # Depth \/ PrintT(<<"@@HIST@@", ToJson(hist)>>)

(* Counterexample extraction (exhaustive mode on SimSpec, configurations CE_*.cfg): the schedule that leads to a
   state falsifying an invariant of HeaderHashesImpl is printed, to be REPLAYED ON THE REAL NODE - a model-level
   counterexample is never a verdict by itself.  NoBad stops at the first (shortest) one; AllBad prints every
   one within the bound Short. *)
N(ok, name) == IF ok THEN {} ELSE {name}
BadNames == N(AbsAnswers, "AbsAnswers") \cup N(AbsTip, "AbsTip") \cup N(AbsHeights, "AbsHeights") \cup N(AbsReset, "AbsReset")
            \cup N(CanRestart, "CanRestart") \cup N(NoDead, "NoDead") \cup N(MemCanonical, "MemCanonical")
            \cup N(RestartTransparent, "RestartTransparent") \cup N(DiskPages, "DiskPages") \cup N(KeepsList, "KeepsList")
CE == PrintT(<<"@@CE@@", ToJson([bad |-> BadNames, hist |-> hist])>>)
NoBad  == BadNames = {} \/ ~CE
AllBad == BadNames = {} \/ CE
Short  == Len(hist) <= Depth
=============================================================================
