SPECIFICATION SimSpec
CONSTANTS
  MaxH = 10
  Page = 3
  TSet = {2, 3, 4, 5, 6, 7, 8}
  RSet = {}
  RUB = TRUE
  MTB = 1
  GCP = 1
  MaxCrash = 3
  MaxReset = 0
  Dev = {}
  Depth = 14
INVARIANT Emit
CHECK_DEADLOCK FALSE
