SPECIFICATION Spec
CONSTANTS
  MaxH = 7
  Page = 3
  TSet = {0}
  RSet = {3, 4, 5, 6}
  RUB = TRUE
  MTB = 1
  GCP = 1
  MaxCrash = 1
  MaxReset = 0
  Dev = {"FixV1"}
INVARIANTS AbsAnswers AbsTip AbsHeights AbsReset CanRestart NoDead MemCanonical RestartTransparent DiskPages KeepsList
CHECK_DEADLOCK FALSE
