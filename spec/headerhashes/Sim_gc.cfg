SPECIFICATION SimSpec
CONSTANTS
  MaxH = 10
  Page = 3
  TSet = {0}
  RSet = {}
  RUB = TRUE
  MTB = 1
  GCP = 1
  MaxCrash = 3
  MaxReset = 0
  Dev = {}
  Depth = 14
INVARIANT Emit
CHECK_DEADLOCK FALSE
