SPECIFICATION SimSpec
CONSTANTS
  MaxH = 10
  Page = 3
  TSet = {2, 3, 4, 5, 6, 7, 8}
  RSet = {}
  RUB = TRUE
  MTB = 1
  GCP = 1
  MaxCrash = 1
  MaxReset = 0
  Dev = {"TrustedInit"}
  Depth = 4
INVARIANT AllBad
CONSTRAINT Short
CHECK_DEADLOCK FALSE
