---------------------------- MODULE HeaderHashes ----------------------------
(***************************************************************************)
(* Extension of the C02 check: HEADER-HASH PAGING (pkg/core/headerhashes.go)*)
(* ABSTRACT (property level) module - the judge.                           *)
(*                                                                         *)
(* Scope = the statement of C02, of which these clauses are relied upon:   *)
(*   (a) "If the node dies between any two atomic batch writes to its      *)
(*        database - during ordinary block persistence, garbage collection,*)
(*        a state reset to an earlier height or a state-sync jump -        *)
(*        reopening the database gives a node at some height not above the *)
(*        last accepted block whose state equals that of an uninterrupted  *)
(*        node at that height and which then accepts the remaining blocks" *)
(*   (b) "a completed reset to height h leaves the node indistinguishable  *)
(*        from one that only ever synchronised to h."                      *)
(*                                                                         *)
(* The part of a node's state this module talks about is the answer        *)
(* function of the header-hash list as seen through core.Blockchain:       *)
(*   HeaderHeight(), CurrentHeaderHash(), GetHeaderHash(i) for every i.    *)
(* An uninterrupted node at header height hh answers, for every index i    *)
(* it retains, the hash of the canonical header i, and the zero hash for   *)
(* every i above hh.  Hence (a) and (b) imply, for every node that comes   *)
(* back from ANY database image the node itself wrote (every prefix of its *)
(* batch sequence), and for every node that completed a Reset:             *)
(*   Restarted        it comes back at all (init() returns no error and    *)
(*                    does not panic);                                      *)
(*   HeightBound      header / block height not above what was accepted;   *)
(*   Retained         GetHeaderHash(i) is not the zero hash for any        *)
(*                    floor <= i <= hh;                                     *)
(*   ForeignFree      GetHeaderHash(i) is never a hash other than the      *)
(*                    canonical one of height i (or zero);                 *)
(*   NothingBeyondTip GetHeaderHash(i) is zero for i > hh (a node that     *)
(*                    only synchronised to hh knows nothing above it);      *)
(*   TipOK            CurrentHeaderHash() is the canonical hash of hh;      *)
(*   Extends          it accepts the remaining canonical headers / blocks. *)
(* Nothing else is judged.  Silent by design: WHICH height not above the   *)
(* accepted one a crashed node comes back at; what is answered below the   *)
(* retention floor (floor = the trusted header's index for a node started  *)
(* from config TrustedHeader; the oldest TRACEABLE index, block height -    *)
(* MaxTraceableBlocks + 1, for a node that removes untraceable blocks:     *)
(* such a node may or may not have collected older pages) - there zero and *)
(* the canonical hash are both accepted; the in-memory representation (latest / previous / LRU / disk  *)
(* page) an answer is served from.                                         *)
(*                                                                         *)
(* Hash values are abstracted to CODES by the observer:                    *)
(*    0      the zero hash                                                 *)
(*    i + 1  the hash of the canonical header of height i                  *)
(* and, in recorded traces, answer functions are run-length encoded as     *)
(* segments [a, b, k]: every index in a..b was answered with kind k,       *)
(*    "c" the canonical hash of that very index, "z" zero, "o" any other.  *)
(***************************************************************************)
EXTENDS Integers, Sequences, FiniteSets

Canon(i) == i + 1
Max2(a, b) == IF a > b THEN a ELSE b
Min2(a, b) == IF a < b THEN a ELSE b

\* retention floor of a node: trusted = TrustedHeader.Index (0 = none); rub = RemoveUntraceableBlocks
Floor(trusted, rub, mtb, bh) == Max2(trusted, IF rub THEN bh - mtb + 1 ELSE 0)

(* ---- point form (used on the implementation-shaped model) ---- *)
AnswerOK(hh, floor, i, c) ==
    /\ (floor <= i /\ i <= hh) => c = Canon(i)
    /\ i > hh => c = 0
    /\ i < floor => c \in {0, Canon(i)}

TipCodeOK(hh, floor, c) == hh >= floor => c = Canon(hh)

(* ---- segment form (used on traces of the real node) ---- *)
ForeignFree(segs)            == \A s \in segs : s.k # "o"
\* no index of a zero segment lies inside floor..hh
Retained(hh, floor, segs)    == \A s \in segs : s.k = "z" => Max2(s.a, floor) > Min2(s.b, hh)
NothingBeyondTip(hh, segs)   == \A s \in segs : s.k = "c" => s.b <= hh

HeightBound(hh, bh, acchh, accbh) == hh <= acchh /\ bh <= accbh

\* a completed Reset(h): header and block height are h (clause b)
ResetDone(h, hh, bh) == hh = h /\ bh = h
=============================================================================
