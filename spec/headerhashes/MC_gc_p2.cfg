SPECIFICATION Spec
CONSTANTS
  MaxH = 10
  Page = 3
  TSet = {0}
  RSet = {}
  RUB = TRUE
  MTB = 2
  GCP = 2
  MaxCrash = 2
  MaxReset = 0
  Dev = {}
INVARIANTS AbsAnswers AbsTip AbsHeights AbsReset CanRestart NoDead MemCanonical RestartTransparent DiskPages KeepsList
CHECK_DEADLOCK FALSE
