SPECIFICATION Spec
CONSTANTS
  MaxH = 8
  Page = 3
  TSet = {0}
  RSet = {}
  RUB = TRUE
  MTB = 1
  GCP = 1
  MaxCrash = 2
  MaxReset = 0
  Dev = {"GCLastPage"}
INVARIANTS AbsAnswers AbsTip AbsHeights AbsReset CanRestart NoDead MemCanonical RestartTransparent DiskPages KeepsList
CHECK_DEADLOCK FALSE
