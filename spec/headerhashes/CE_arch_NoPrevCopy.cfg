SPECIFICATION SimSpec
CONSTANTS
  MaxH = 10
  Page = 3
  TSet = {0}
  RSet = {}
  RUB = FALSE
  MTB = 1
  GCP = 1
  MaxCrash = 1
  MaxReset = 1
  Dev = {"NoPrevCopy"}
  Depth = 30
INVARIANT NoBad
CONSTRAINT Short
CHECK_DEADLOCK FALSE
