-------------------------- MODULE HeaderHashesTrace --------------------------
(* Judges traces of the real core.Blockchain recorded by harness/c02hdrhashes against the ABSTRACT module
   HeaderHashes.tla (total, deterministic, reporting - see spec/common/TraceIO.tla).

   A trace is a concatenation of worlds.  Each world: an `init` event (configuration of the node: page size,
   TrustedHeader index, RemoveUntraceableBlocks, MaxTraceableBlocks; the first observation), then one `step`
   event per operation of the schedule executed on the MAIN node, each preceded by one `probe` event per
   atomic batch (PutChangeSet / SeekGC commit) the operation wrote (a step flagged `interrupted` is an operation
   the schedule crashes in the middle of: it is observed, but the crash event that follows rewinds the node to
   an earlier batch prefix, so it does not move the accepted heights): a probe is a crash at that batch boundary
   - the database image of the batch prefix is materialised, opened with core.NewBlockchain, observed, fed a
   few further canonical headers / blocks and observed again - that leaves the main node alone.

   Every observation (`obs`) is read from the real object: hh = HeaderHeight(), bh = BlockHeight(),
   tip = kind of CurrentHeaderHash() w.r.t. the canonical header of hh, segs = run-length encoded answers of
   GetHeaderHash over the examined indexes (kinds "c" canonical hash of that index, "z" zero, "o" other),
   mem = HeaderHashes RAM shape read with reflect (storedHeaderCount, len(latest)), dhh/dbh/pages = tip
   pointers and page keys of the backend.

   PROPERTY level (a falsified name = the real code violates C02, see the clauses quoted in HeaderHashes.tla):
     Restarted         NewBlockchain on a database the node itself wrote returns a node (no error, no panic)
     HeightBound       heights after a restart are not above what was accepted
     Retained          no zero answer inside [floor, hh]
     ForeignFree       no answer other than zero / the canonical hash of the index
     NothingBeyondTip  zero above the header height
     TipOK             CurrentHeaderHash() is the canonical hash of hh
     NoPanic           no Go panic escapes HeaderHeight / CurrentHeaderHash / GetHeaderHash
     Extends           canonical headers / blocks offered next are accepted and the heights follow
     HeightsStable     a flush / a lookup sweep does not move the heights
     ResetOK, ResetDone  Reset(h) succeeds and leaves header = block height = h
   MODEL level (reported with the prefix "drift:", never a verdict):
     drift:MemShape          storedHeaderCount = ((hh+1) div Page) * Page and len(latest) = hh + 1 - stored
                             (what HeaderHashesImpl!MemCanonical predicts for every node, restarted or not)
     drift:FlushPersistsAll  after a flush / clean stop the backend's tip pointers equal the node's heights
     drift:RecoversPersisted a restarted node comes back exactly at the tip pointers of the image (unless the image
                             carries the marker of an interrupted Reset, which is resumed)
     drift:StopKeepsHeights  a clean stop + restart loses nothing
     drift:DiskPages         page keys on the backend are complete pages below the persisted tip
     drift:KeepsListBelowTrusted  a node whose database was synchronised from genesis and that gets a
                             TrustedHeader configured afterwards (step `retrust`) still answers every index it
                             retained (the code's own test calls the answers below the trusted index unimportant,
                             so this is model level; the property-level floor of such a node is the trusted index) *)
EXTENDS TraceIO, FiniteSets, SequencesExt

VARIABLES l,      \* next line
          cfg,    \* configuration of the world
          hh, bh, \* heights of the main node as last observed
          ahh, abh \* accepted heights (upper bounds for any recovery)
vars == <<l, cfg, hh, bh, ahh, abh>>

A == INSTANCE HeaderHashes

Init == l = 1 /\ cfg = [page |-> 1, trusted |-> 0, rub |-> FALSE, mtb |-> 0, full |-> FALSE] /\ hh = 0 /\ bh = 0 /\ ahh = 0 /\ abh = 0

Segs(o) == ToSet(o.segs)
FloorC(c, o) == A!Floor(c.trusted, c.rub, c.mtb, o.bh)

\* abstract predicates every observation of a live node must satisfy (c = configuration of the world)
ObsChecksC(c, o) ==
    NameIf(A!ForeignFree(Segs(o)), "ForeignFree")
    \cup NameIf(A!Retained(o.hh, FloorC(c, o), Segs(o)), "Retained")
    \cup NameIf(A!NothingBeyondTip(o.hh, Segs(o)), "NothingBeyondTip")
    \cup NameIf(o.hh >= FloorC(c, o) => o.tip = "c", "TipOK")
    \cup NameIf(o.panic = "", "NoPanic")
ObsChecks(o) == ObsChecksC(cfg, o)

\* model-level expectations on an observation
ObsDriftC(c, o) ==
    LET st == ((o.hh + 1) \div c.page) * c.page IN
    NameIf(o.mem.stored = st /\ o.mem.latest = o.hh + 1 - st, "drift:MemShape")
    \cup NameIf(\A p \in ToSet(o.pages) : p % c.page = 0 /\ p + c.page <= o.dhh + 1, "drift:DiskPages")
    \cup NameIf(c.full => A!Retained(o.hh, A!Floor(0, c.rub, c.mtb, o.bh), Segs(o)), "drift:KeepsListBelowTrusted")
ObsDrift(o) == ObsDriftC(cfg, o)

Max2(a, b) == IF a > b THEN a ELSE b

StepChecks(e) ==
    LET o == e.obs IN
    CASE e.op = "hdr" ->
            NameIf(e.ok /\ o.hh = Max2(hh, e.to) /\ o.bh = bh, "Extends") \cup ObsChecks(o) \cup ObsDrift(o)
      [] e.op = "blk" ->
            NameIf(e.ok /\ o.bh = Max2(bh, e.to) /\ o.hh = Max2(hh, e.to), "Extends") \cup ObsChecks(o) \cup ObsDrift(o)
      [] e.op \in {"flush", "look"} ->
            NameIf(e.ok /\ o.hh = hh /\ o.bh = bh, "HeightsStable") \cup ObsChecks(o) \cup ObsDrift(o)
            \cup (IF e.op = "flush" THEN NameIf(o.dhh = o.hh /\ o.dbh = o.bh, "drift:FlushPersistsAll") ELSE {})
      [] e.op \in {"stop", "reopen"} ->
            IF ~e.ok THEN {"Restarted"}
            ELSE NameIf(A!HeightBound(o.hh, o.bh, ahh, abh), "HeightBound") \cup ObsChecks(o) \cup ObsDrift(o)
                 \cup NameIf(e.interrupted \/ (o.hh = hh /\ o.bh = bh), "drift:StopKeepsHeights")
                 \cup NameIf(o.dhh = o.hh /\ o.dbh = o.bh, "drift:FlushPersistsAll")
      [] e.op = "retrust" ->
            \* the database was synchronised from genesis; from now on the node is configured with TrustedHeader e.t
            LET c == [cfg EXCEPT !.trusted = e.t, !.full = TRUE] IN
            IF ~e.ok THEN {"Restarted"}
            ELSE NameIf(A!HeightBound(o.hh, o.bh, ahh, abh), "HeightBound") \cup ObsChecksC(c, o) \cup ObsDriftC(c, o)
                 \cup NameIf(o.hh = hh /\ o.bh = bh, "drift:StopKeepsHeights")
      [] e.op = "crash" ->
            IF ~e.ok THEN {"Restarted"}
            ELSE NameIf(A!HeightBound(o.hh, o.bh, ahh, abh), "HeightBound") \cup ObsChecks(o) \cup ObsDrift(o)
                 \cup NameIf(e.imark \/ (o.hh = Max2(e.ihh, cfg.trusted - 1) /\ o.bh = e.ibh), "drift:RecoversPersisted")
      [] e.op = "reset" ->
            IF ~e.ok THEN {"ResetOK"}
            ELSE NameIf(A!ResetDone(e.h, o.hh, o.bh), "ResetDone") \cup ObsChecks(o) \cup ObsDrift(o)
      [] OTHER -> {"UnknownOp"}

\* a crash probe: the image of a batch prefix reopened, observed, continued, observed
ProbeChecks(e) ==
    IF ~e.ok THEN {"Restarted"}
    ELSE LET o == e.obs IN
         NameIf(A!HeightBound(o.hh, o.bh, ahh, abh), "HeightBound") \cup ObsChecks(o) \cup ObsDrift(o)
         \cup (IF e.cont.n = 0 THEN {}
               ELSE IF ~e.cont.ok THEN {"Extends"}
               ELSE LET o2 == e.cont.obs IN
                    NameIf(o2.hh = e.cont.hh /\ o2.bh = e.cont.bh, "Extends")
                    \cup ObsChecks(o2) \cup ObsDrift(o2))

Step ==
    /\ l <= Len(TLog)
    /\ l' = l + 1
    /\ LET e == TLog[l] IN
       CASE e.event = "init" ->
              /\ cfg' = [page |-> e.page, trusted |-> e.trusted, rub |-> e.rub, mtb |-> e.mtb, full |-> FALSE]
              /\ hh' = e.obs.hh /\ bh' = e.obs.bh /\ ahh' = e.obs.hh /\ abh' = e.obs.bh
              /\ LET c == [page |-> e.page, trusted |-> e.trusted, rub |-> e.rub, mtb |-> e.mtb, full |-> FALSE] IN
                 Report(l, ObsChecksC(c, e.obs) \cup ObsDriftC(c, e.obs), [op |-> "init", world |-> e.world, step |-> 0])
         [] e.event = "step" ->
              /\ cfg' = IF e.op = "retrust" /\ e.ok THEN [cfg EXCEPT !.trusted = e.t, !.full = TRUE] ELSE cfg
              /\ IF e.ok /\ ~e.interrupted
                 THEN /\ hh' = e.obs.hh /\ bh' = e.obs.bh
                      /\ ahh' = IF e.op \in {"stop", "reopen", "crash", "reset", "retrust"} THEN e.obs.hh ELSE Max2(ahh, e.obs.hh)
                      /\ abh' = IF e.op \in {"stop", "reopen", "crash", "reset", "retrust"} THEN e.obs.bh ELSE Max2(abh, e.obs.bh)
                 ELSE UNCHANGED <<hh, bh, ahh, abh>>
              /\ Report(l, StepChecks(e), [op |-> e.op, world |-> e.world, step |-> e.step, before |-> [hh |-> hh, bh |-> bh, ahh |-> ahh, abh |-> abh]])
         [] e.event = "probe" ->
              /\ UNCHANGED <<cfg, hh, bh, ahh, abh>>
              /\ Report(l, ProbeChecks(e), [op |-> "probe", world |-> e.world, step |-> e.step, batch |-> e.batch,
                                            before |-> [hh |-> hh, bh |-> bh, ahh |-> ahh, abh |-> abh]])
         [] OTHER -> UNCHANGED <<cfg, hh, bh, ahh, abh>> /\ Report(l, {"UnknownEvent"}, [ev |-> e.event])

TraceSpec == Init /\ [][Step]_vars
=============================================================================
