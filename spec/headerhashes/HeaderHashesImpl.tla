-------------------------- MODULE HeaderHashesImpl --------------------------
(***************************************************************************)
(* Implementation-shaped model of pkg/core/headerhashes.go and of the      *)
(* places of pkg/core/blockchain.go that touch the header-hash list.       *)
(*                                                                         *)
(*   disk   the database, changed ONLY by atomic batches                   *)
(*   view   what the running node reads: disk overlaid with the write      *)
(*          cache bc.dao (HeaderHashes.addHeaders puts headers, completed   *)
(*          pages and SYSCurrentHeader into bc.dao; they reach the disk    *)
(*          with the next persist(), in ONE batch)                          *)
(*   mem    RAM of HeaderHashes: latest (partial page), prev (last full    *)
(*          page), stored (storedHeaderCount), and the block height         *)
(*   lru    RAM: cache of pages read from the database (GetHeaderHash)      *)
(* A database is the record                                                *)
(*   cur, curc  SYSCurrentHeader: index and hash code                      *)
(*   blk        SYSCurrentBlock index                                      *)
(*   hdr        heights that have a header record (DataExecutable)         *)
(*   body       heights that have the full block                           *)
(*   pages      page start -> sequence of Page hash codes (IXHeaderHashList)*)
(*   stage, sp  SYSStateChangeStage marker of a Reset and its target       *)
(* Hash codes as in HeaderHashes.tla (0 = zero hash, i+1 = header i).      *)
(*                                                                         *)
(* One action per atomic batch / per call:                                 *)
(*   AddHeaders(n)  bc.AddHeaders of the next n canonical headers          *)
(*   AddBlock       bc.AddBlock of the next block (stores its header too   *)
(*                  when the header is not known yet)                      *)
(*   Persist        persist(): view becomes the disk in one batch; on a    *)
(*                  RemoveUntraceableBlocks node followed by                *)
(*   GC             tryRunGC: untraceable blocks are deleted in the CACHE  *)
(*                  (found through GetHeaderHash), old pages are deleted   *)
(*                  DIRECTLY on the disk (one SeekGC batch)                *)
(*   Stop           clean stop (flush, process gone)                       *)
(*   Crash          RAM and write cache lost, between any two batches      *)
(*   Restart        HeaderHashes.init() transcribed (InitMem), resume of an*)
(*                  interrupted Reset                                       *)
(*   Reset(h)       bc.Reset as the CLI does it (clean stop, reopen, three *)
(*                  stage batches, RAM re-initialised)                      *)
(*   Lookup(i)      GetHeaderHash(i) (changes the LRU)                      *)
(*   Retrust(t)     a node synchronised from genesis is stopped and        *)
(*                  reopened with TrustedHeader t configured (t at or      *)
(*                  below its header height, t beyond page 0)              *)
(*                                                                         *)
(* TLC checks the ABSTRACT predicates of HeaderHashes.tla in every         *)
(* reachable state (AbsAnswers, AbsTip, AbsHeights, AbsReset), that init() *)
(* succeeds on every reachable database (CanRestart: crash points are all  *)
(* states), and the implementation-level claims MemCanonical (RAM after    *)
(* any history, restarts included, is a function of the header height =    *)
(* what an uninterrupted node has) and DiskPages.                          *)
(*                                                                         *)
(* Named deviations (Dev; {} = the design that satisfies the property):    *)
(*  "TrustedInit"     init() as the pinned code computes it for a node     *)
(*                    started from TrustedHeader: it reads the previous    *)
(*                    page when stored - missing >= Page or cur % Page #   *)
(*                    T % Page, and pads latest to cur - len(headers)      *)
(*                    entries instead of T - stored (reproduced on the     *)
(*                    real code: restart panics / fails / comes back with  *)
(*                    a wrong list whenever T is not in page 0; candidate  *)
(*                    fix: .work/c02-headerhashes-candidate-fix.diff)      *)
(*  "FixV1"           the first candidate repair: previous page read iff   *)
(*                    stored >= Page and stored >= T - loses the pages of  *)
(*                    a full database that gets a TrustedHeader later      *)
(*  "GCLastPage"      page GC may delete the newest complete page          *)
(*  "ResetKeepsPages" Reset does not delete the pages above its target     *)
(*  "ResetKeepsLRU"   Reset keeps the LRU of pages                          *)
(*  "NoPrevCopy"      a completed page is not copied into prev             *)
(*  "StoredFromBlock" init() derives storedHeaderCount from the BLOCK      *)
(*                    height instead of the header height                   *)
(***************************************************************************)
EXTENDS Integers, Sequences, FiniteSets, TLC

CONSTANTS MaxH,      \* canonical chain 0..MaxH
          Page,      \* headerBatchCount
          TSet,      \* TrustedHeader.Index the node is CREATED with is chosen from this set (0 = none)
          RSet,      \* indexes a TrustedHeader may be configured at LATER, on a database synchronised from genesis
          RUB,       \* RemoveUntraceableBlocks
          MTB, GCP,  \* MaxTraceableBlocks, GarbageCollectionPeriod
          MaxCrash, MaxReset,
          Dev

VARIABLES disk, view, mem, lru, up, dead, gcLast, pc, acc, crashes, resets, last,
          tr,       \* TrustedHeader.Index the node is configured with now
          base      \* TrustedHeader.Index the database was created with (its list starts there)

vars == <<disk, view, mem, lru, up, dead, gcLast, pc, acc, crashes, resets, last, tr, base>>

T == tr
EmptyF == [x \in {} |-> 0]

A == INSTANCE HeaderHashes

C(i)       == i + 1
Zeros(n)   == [i \in 1..n |-> 0]
PageOf(i)  == (i \div Page) * Page
Max(a, b)  == IF a > b THEN a ELSE b
Min(a, b)  == IF a < b THEN a ELSE b
MinSet(S)  == CHOOSE x \in S : \A y \in S : x <= y
\* what THIS node's list holds for index i: nothing (zero) below the trusted header it was created with
Own(i)     == IF i < base THEN 0 ELSE C(i)
OwnPage(s) == [k \in 1..Page |-> Own(s + k - 1)]
Put(f, k, v) == [x \in DOMAIN f \cup {k} |-> IF x = k THEN v ELSE f[x]]
Drop(f, S)   == [x \in DOMAIN f \ S |-> f[x]]

NoMem == [latest |-> <<>>, prev |-> <<>>, stored |-> 0, bh |-> 0]

HH(m) == m.stored + Len(m.latest) - 1          \* lastHeaderIndex
hh == HH(mem)
bh == mem.bh

----------------------------------------------------------------------------
(* initMinTrustedHeader: a fresh database.  For T = 0 the list starts with genesis. *)
FreshMem ==
    IF T = 0 THEN [latest |-> <<C(0)>>, prev |-> Zeros(Page), stored |-> 0, bh |-> 0]
    ELSE LET lat == Zeros((T - 1) % Page) \o <<0>>
             st  == PageOf(T - 1)
         IN  IF Len(lat) = Page THEN [latest |-> <<>>, prev |-> lat, stored |-> st + Page, bh |-> 0]
             ELSE [latest |-> lat, prev |-> Zeros(Page), stored |-> st, bh |-> 0]

FreshDisk ==
    [cur |-> IF T = 0 THEN 0 ELSE T - 1, curc |-> IF T = 0 THEN C(0) ELSE 0, blk |-> 0,
     hdr |-> {0}, body |-> {0},
     pages |-> IF T > 0 /\ T % Page = 0 THEN (PageOf(T - 1) :> Zeros(Page)) ELSE EmptyF,
     stage |-> "none", sp |-> 0]

(* HeaderHashes.init(dao, trusted) on a database d.  Result [ok, mem]. *)
InitMem(d) ==
    IF d.cur < T THEN [ok |-> TRUE, mem |-> [FreshMem EXCEPT !.bh = d.blk]]
    ELSE
    LET from    == IF "StoredFromBlock" \in Dev THEN d.blk ELSE d.cur
        stored  == ((from + 1) \div Page) * Page
        missing == ((T + 1) \div Page) * Page
        havePrev == (stored - Page) \in DOMAIN d.pages
        \* design: the previous page is read whenever there is one; a missing page is excused only when the
        \* trusted start explains it (the list of a node created from TrustedHeader T begins in T's page)
        excused == T > 0 /\ stored <= T
        readPrev == IF "TrustedInit" \in Dev
                    THEN stored >= Page /\ ((stored > missing /\ stored - missing >= Page) \/ (d.cur % Page # T % Page))
                    ELSE IF "FixV1" \in Dev THEN stored >= Page /\ stored >= T
                    ELSE stored >= Page /\ ~(~havePrev /\ excused)
        prev    == IF readPrev /\ havePrev THEN d.pages[stored - Page] ELSE Zeros(Page)
        walk    == d.cur >= stored
        tgt0    == IF stored >= Page THEN prev[Page] ELSE 0
        padLeft == tgt0 = 0 /\ T > 0
        tgt     == IF padLeft THEN C(T) ELSE tgt0
        \* heights whose header record the walk reads: from cur down to (excluding) the header with hash tgt
        need    == IF tgt = 0 THEN 0..d.cur ELSE tgt..d.cur
        hdrs    == [k \in 1..Cardinality(need) |-> C(MinSet(need) + k - 1)]
        padLen  == IF "TrustedInit" \in Dev THEN d.cur - Len(hdrs) ELSE IF T >= stored THEN T - stored ELSE 0
        latest  == IF ~walk THEN <<>>
                   ELSE IF padLeft THEN Zeros(padLen) \o <<C(T)>> \o hdrs ELSE hdrs
    IN  IF readPrev /\ ~havePrev THEN [ok |-> FALSE, why |-> "page"]                     \* failed to retrieve header hash page
        ELSE IF walk /\ ~(need \subseteq d.hdr) THEN [ok |-> FALSE, why |-> "header"]  \* could not get header
        ELSE IF walk /\ padLeft /\ (padLen > Page \/ padLen < 0) THEN [ok |-> FALSE, why |-> "panic"]  \* slice bounds out of range
        ELSE [ok |-> TRUE, mem |-> [latest |-> latest, prev |-> prev, stored |-> stored, bh |-> d.blk]]

----------------------------------------------------------------------------
(* GetHeaderHash *)
Local(m, i) == i <= HH(m) /\ i >= m.stored - Page /\ i >= 0
LocalVal(m, i) == IF i >= m.stored THEN m.latest[i - m.stored + 1] ELSE m.prev[i - (m.stored - Page) + 1]
Answer(m, c, v, i) ==
    IF Local(m, i) THEN LocalVal(m, i)
    ELSE LET p == PageOf(i) IN
         IF p \in DOMAIN c THEN c[p][i - p + 1]
         ELSE IF p \in DOMAIN v.pages THEN v.pages[p][i - p + 1]
         ELSE 0
\* pages the lookups of the indexes in S pull into the LRU
Pulled(m, c, v, S) == {PageOf(i) : i \in {j \in S : ~Local(m, j)}} \cap (DOMAIN v.pages \ DOMAIN c)
WithPulled(m, c, v, S) == [p \in DOMAIN c \cup Pulled(m, c, v, S) |-> IF p \in DOMAIN c THEN c[p] ELSE v.pages[p]]

Tip(m) == IF Len(m.latest) > 0 THEN m.latest[Len(m.latest)] ELSE m.prev[Page]

----------------------------------------------------------------------------
(* HeaderHashes.addHeaders for the next n canonical headers *)
RECURSIVE AddH(_, _, _)
AddH(m, v, n) ==
    IF n = 0 THEN [m |-> m, v |-> v]
    ELSE LET x   == HH(m) + 1
             lat == Append(m.latest, C(x))
             v1  == [v EXCEPT !.hdr = @ \cup {x}, !.cur = x, !.curc = C(x)]
         IN  IF Len(lat) = Page
             THEN AddH([m EXCEPT !.latest = <<>>, !.prev = IF "NoPrevCopy" \in Dev THEN @ ELSE lat, !.stored = @ + Page],
                       [v1 EXCEPT !.pages = Put(@, m.stored, lat)], n - 1)
             ELSE AddH([m EXCEPT !.latest = lat], v1, n - 1)

Idle == up /\ pc = <<>>

AddHeaders(n) ==
    /\ Idle /\ n >= 1 /\ hh + n <= MaxH
    /\ LET r == AddH(mem, view, n) IN mem' = r.m /\ view' = r.v
    /\ acc' = [acc EXCEPT !.hh = hh + n]
    /\ last' = [op |-> "hdr", to |-> hh + n]
    /\ UNCHANGED <<disk, lru, up, dead, gcLast, pc, crashes, resets>>

AddBlock ==
    /\ Idle /\ T = 0 /\ bh < MaxH
    /\ LET x == bh + 1
           r == IF x = hh + 1 THEN AddH(mem, view, 1) ELSE [m |-> mem, v |-> view]
       IN  /\ mem'  = [r.m EXCEPT !.bh = x]
           /\ view' = [r.v EXCEPT !.body = @ \cup {x}, !.hdr = @ \cup {x}, !.blk = x]
           /\ acc'  = [hh |-> Max(acc.hh, x), bh |-> x]
           /\ last' = [op |-> "blk", to |-> x]
    /\ UNCHANGED <<disk, lru, up, dead, gcLast, pc, crashes, resets>>

Persist ==
    /\ Idle /\ view # disk
    /\ disk' = view
    /\ pc' = IF RUB /\ view.blk # disk.blk THEN <<[k |-> "gc", old |-> disk.blk]>> ELSE <<>>
    /\ last' = [op |-> "flush"]
    /\ UNCHANGED <<view, mem, lru, up, dead, gcLast, acc, crashes, resets>>

(* tryRunGC / removeUntraceableBlocks / removeOldHeaderHashes *)
GC ==
    /\ up /\ pc # <<>> /\ pc[1].k = "gc"
    /\ LET new  == disk.blk
           tgt  == ((new - MTB) \div GCP) * GCP
           go   == tgt > GCP /\ (new \div GCP) # (pc[1].old \div GCP)
           tgtB == IF ((new \div GCP) * GCP) \div Page = tgt \div Page THEN Max(0, (tgt \div Page - 1) * Page) ELSE tgt
           S    == IF go /\ tgtB > 0 THEN gcLast..(tgtB - 1) ELSE {}
           gone == {i \in S : Answer(mem, lru, view, i) # 0}        \* zero hashes are skipped
           keep == mem.stored - 2 * Page
           till0 == ((tgt + 1) \div Page - 1) * Page
           till == IF "GCLastPage" \in Dev THEN till0 ELSE Min(till0, keep)
           dead_pages == IF go /\ till > 0 THEN {p \in DOMAIN disk.pages : p <= till} ELSE {}
       IN  /\ lru' = WithPulled(mem, lru, view, S)
           /\ view' = [view EXCEPT !.hdr = @ \ gone, !.body = @ \ gone, !.pages = Drop(@, dead_pages)]
           /\ disk' = [disk EXCEPT !.pages = Drop(@, dead_pages)]
           /\ gcLast' = IF go /\ tgtB > 0 THEN tgtB ELSE gcLast
    /\ pc' = Tail(pc)
    /\ last' = [op |-> "gc"]
    /\ UNCHANGED <<mem, up, dead, acc, crashes, resets>>

Stop ==
    /\ Idle
    /\ disk' = view
    /\ up' = FALSE /\ mem' = NoMem /\ lru' = EmptyF
    /\ last' = [op |-> "stop"]
    /\ UNCHANGED <<view, dead, gcLast, pc, acc, crashes, resets>>

Crash ==
    /\ up /\ crashes < MaxCrash
    /\ up' = FALSE /\ mem' = NoMem /\ lru' = EmptyF /\ view' = disk /\ pc' = <<>>
    /\ crashes' = crashes + 1
    /\ last' = [op |-> "crash", mid |-> Len(pc)]
    /\ UNCHANGED <<disk, dead, gcLast, acc, resets>>

Restart ==
    /\ ~up /\ ~dead
    /\ LET r == InitMem(disk) IN
       IF r.ok
       THEN /\ up' = TRUE /\ mem' = r.mem /\ view' = disk /\ lru' = EmptyF
            /\ gcLast' = IF DOMAIN disk.pages = {} THEN 0 ELSE MinSet(DOMAIN disk.pages)
            /\ pc' = IF disk.stage = "r1" THEN <<[k |-> "r2", h |-> disk.sp], [k |-> "r3", h |-> disk.sp]>>
                     ELSE IF disk.stage = "r2" THEN <<[k |-> "r3", h |-> disk.sp]>> ELSE <<>>
            /\ UNCHANGED dead
       ELSE /\ dead' = TRUE /\ UNCHANGED <<up, mem, view, lru, gcLast, pc>>
    /\ last' = [op |-> "restart"]
    /\ UNCHANGED <<disk, acc, crashes, resets>>

(* Reset(h).  R0 = clean stop + reopen (not running); R1 removes the blocks above h but keeps their headers and
   writes the marker; R2 purges the headers above h, deletes the pages from the one containing h+1 on, moves
   both tip pointers to h; R3 removes the marker and re-initialises the RAM (resetRAMState -> init()). *)
Reset(h) ==
    /\ Idle /\ ~RUB /\ T = 0 /\ resets < MaxReset
    /\ h <= bh /\ ~(h = bh /\ hh = bh)
    /\ h \in view.body
    /\ InitMem(view).ok
    /\ disk' = view
    /\ mem' = InitMem(view).mem /\ lru' = EmptyF
    /\ pc' = <<[k |-> "r1", h |-> h], [k |-> "r2", h |-> h], [k |-> "r3", h |-> h]>>
    /\ resets' = resets + 1
    /\ last' = [op |-> "reset", h |-> h]
    /\ UNCHANGED <<view, up, dead, gcLast, acc, crashes>>

R1 ==
    /\ up /\ pc # <<>> /\ pc[1].k = "r1"
    /\ LET h == pc[1].h
           d == [view EXCEPT !.body = {x \in @ : x <= h}, !.stage = "r1", !.sp = h]
       IN  /\ view' = d /\ disk' = d
           /\ lru' = WithPulled(mem, lru, view, (h + 1)..bh)          \* bc.GetHeaderHash(i) for every removed block
    /\ pc' = Tail(pc)
    /\ UNCHANGED <<mem, up, dead, gcLast, acc, crashes, resets, last>>

R2 ==
    /\ up /\ pc # <<>> /\ pc[1].k = "r2"
    /\ LET h == pc[1].h
           above == {p \in DOMAIN view.pages : p >= PageOf(h + 1)}
           d == [view EXCEPT !.hdr = {x \in @ : x <= h}, !.body = {x \in @ : x <= h},
                             !.pages = IF "ResetKeepsPages" \in Dev THEN @ ELSE Drop(@, above),
                             !.cur = h, !.curc = C(h), !.blk = h, !.stage = "r2", !.sp = h]
       IN  /\ view' = d /\ disk' = d
           /\ lru' = WithPulled(mem, lru, view, (h + 1)..hh)          \* PurgeHeader(bc.GetHeaderHash(i))
    /\ pc' = Tail(pc)
    /\ UNCHANGED <<mem, up, dead, gcLast, acc, crashes, resets, last>>

R3 ==
    /\ up /\ pc # <<>> /\ pc[1].k = "r3"
    /\ LET h == pc[1].h
           d == [view EXCEPT !.stage = "none"]
           r == InitMem(d)
       IN  /\ view' = d /\ disk' = d
           /\ IF r.ok THEN mem' = [r.mem EXCEPT !.bh = h] /\ UNCHANGED dead
              ELSE dead' = TRUE /\ UNCHANGED mem
           /\ lru' = IF "ResetKeepsLRU" \in Dev THEN lru ELSE EmptyF
           /\ acc' = [hh |-> h, bh |-> h]
           /\ last' = [op |-> "reset-done", h |-> h]
    /\ pc' = Tail(pc)
    /\ UNCHANGED <<up, gcLast, crashes, resets>>

Lookup(i) ==
    /\ Idle
    /\ Pulled(mem, lru, view, {i}) # {}
    /\ lru' = WithPulled(mem, lru, view, {i})
    /\ last' = [op |-> "look", i |-> i]
    /\ UNCHANGED <<disk, view, mem, up, dead, gcLast, pc, acc, crashes, resets>>

(* An operator stops a node that was synchronised from genesis and configures a TrustedHeader at or below its
   header height (in a page after the first; in page 0 the code deliberately forgets what lies below t). *)
Retrust(t) ==
    /\ Idle /\ tr = 0 /\ base = 0 /\ t >= Page /\ t <= hh
    /\ disk' = view
    /\ up' = FALSE /\ mem' = NoMem /\ lru' = EmptyF
    /\ tr' = t /\ base' = base
    /\ last' = [op |-> "retrust", t |-> t]
    /\ UNCHANGED <<view, dead, gcLast, pc, acc, crashes, resets>>

Init ==
    /\ tr \in TSet /\ base = tr
    /\ disk = FreshDisk /\ view = FreshDisk /\ mem = FreshMem /\ lru = EmptyF
    /\ up = TRUE /\ dead = FALSE /\ gcLast = 0 /\ pc = <<>>
    /\ acc = [hh |-> HH(FreshMem), bh |-> 0]
    /\ crashes = 0 /\ resets = 0 /\ last = [op |-> "init"]

Step ==
    \/ \E n \in 1..(Page + 1) : AddHeaders(n)
    \/ AddBlock
    \/ Persist \/ GC \/ Stop \/ Crash \/ Restart
    \/ \E h \in 0..MaxH : Reset(h)
    \/ R1 \/ R2 \/ R3
    \/ \E i \in 0..MaxH : Lookup(i)
Next == (Step /\ tr' = tr /\ base' = base) \/ (\E t \in RSet : Retrust(t))

Spec == Init /\ [][Next]_vars

----------------------------------------------------------------------------
(* ABSTRACT level (HeaderHashes.tla) on the model *)
Observable == up /\ ~dead /\ pc = <<>>
Fl == A!Floor(T, RUB, MTB, bh)

AbsAnswers == Observable => \A i \in 0..(MaxH + Page + 1) : A!AnswerOK(hh, Fl, i, Answer(mem, lru, view, i))
AbsTip     == Observable => A!TipCodeOK(hh, Fl, Tip(mem))
AbsHeights == Observable => (A!HeightBound(hh, bh, acc.hh, acc.bh) /\ (T = 0 => bh <= hh))
AbsReset   == (Observable /\ last.op = "reset-done") => A!ResetDone(last.h, hh, bh)
\* init() succeeds on every database reachable between two batches (every state is a crash point)
CanRestart == InitMem(disk).ok
NoDead     == ~dead
\* IMPLEMENTATION level: configuring a TrustedHeader on a database that holds the whole list loses nothing
KeepsList  == Observable => \A i \in 0..hh : (i >= base /\ i >= A!Floor(0, RUB, MTB, bh)) => Answer(mem, lru, view, i) = C(i)

(* IMPLEMENTATION level *)
\* the RAM of a node at header height x, however it got there (uninterrupted or restarted)
Canonical(x) ==
    LET st == ((x + 1) \div Page) * Page IN
    [latest |-> [k \in 1..(x + 1 - st) |-> Own(st + k - 1)],
     prev   |-> IF st >= Page THEN OwnPage(st - Page) ELSE Zeros(Page),
     stored |-> st]
MemCanonical == Observable => LET c == Canonical(hh) IN
                    mem.latest = c.latest /\ mem.prev = c.prev /\ mem.stored = c.stored
\* a crashed node comes back with exactly the RAM of an uninterrupted node at the persisted header height
RestartTransparent == LET r == InitMem(disk) IN (r.ok /\ disk.stage = "none") =>
                          LET c == Canonical(Max(disk.cur, T - 1)) IN
                          r.mem.latest = c.latest /\ r.mem.prev = c.prev /\ r.mem.stored = c.stored
\* stored pages are complete, hold this node's hashes and lie below the persisted tip
DiskPages == \A p \in DOMAIN disk.pages : disk.pages[p] = OwnPage(p) /\ p + Page <= disk.cur + 1
=============================================================================
