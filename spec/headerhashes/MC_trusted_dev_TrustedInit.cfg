SPECIFICATION Spec
CONSTANTS
  MaxH = 10
  Page = 3
  TSet = {2, 3, 4, 5, 6, 7, 8}
  RSet = {}
  RUB = TRUE
  MTB = 1
  GCP = 1
  MaxCrash = 2
  MaxReset = 0
  Dev = {"TrustedInit"}
INVARIANTS AbsAnswers AbsTip AbsHeights AbsReset CanRestart NoDead MemCanonical RestartTransparent DiskPages KeepsList
CHECK_DEADLOCK FALSE
