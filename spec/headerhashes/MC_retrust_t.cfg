SPECIFICATION Spec
CONSTANTS
  MaxH = 9
  Page = 3
  TSet = {0}
  RSet = {3, 4, 5, 6, 7, 8, 9}
  RUB = TRUE
  MTB = 1
  GCP = 1
  MaxCrash = 1
  MaxReset = 0
  Dev = {}
INVARIANTS AbsAnswers AbsTip AbsHeights AbsReset CanRestart NoDead MemCanonical RestartTransparent DiskPages KeepsList
CHECK_DEADLOCK FALSE
