SPECIFICATION Spec
CONSTANTS
  MaxH = 9
  Page = 4
  TSet = {0}
  RUB = FALSE
  MTB = 0
  GCP = 1
  MaxCrash = 2
  MaxReset = 1
  Dev = {}
INVARIANTS AbsAnswers AbsTip AbsHeights AbsReset CanRestart NoDead MemCanonical RestartTransparent DiskPages
CHECK_DEADLOCK FALSE
