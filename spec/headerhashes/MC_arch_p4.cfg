SPECIFICATION Spec
CONSTANTS
  MaxH = 9
  Page = 4
  TSet = {0}
  RSet = {}
  RUB = FALSE
  MTB = 0
  GCP = 1
  MaxCrash = 2
  MaxReset = 1
  Dev = {}
INVARIANTS AbsAnswers AbsTip AbsHeights AbsReset CanRestart NoDead MemCanonical RestartTransparent DiskPages KeepsList
CHECK_DEADLOCK FALSE
