SPECIFICATION ISpec
CONSTANTS
  Universe = "two"
  Rule = "loaded"
  Bug = "DeployNoWrite"
  MgmtReq = "all"
  Contracts <- MCContracts
  Cat <- MCCat
  Tokens <- MCTokens
  ReqSets <- MCReqSets
  InitTables <- MCInitTables
  MaxDepth = 2
  MaxMgmt = 1
  MaxTx = 1
INVARIANTS EffectImpliesFlag
CHECK_DEADLOCK FALSE
