SPECIFICATION ISpec
CONSTANTS
  Universe = "two"
  Rule = "loaded"
  Bug = "DestroyNoBlock"
  MgmtReq = "all"
  Contracts <- MCContracts
  Cat <- MCCat
  Tokens <- MCTokens
  ReqSets <- MCReqSets
  InitTables <- MCInitTables
  MaxDepth = 2
  MaxMgmt = 2
  MaxTx = 1
INVARIANTS NoBlockedRedeploy
CHECK_DEADLOCK FALSE
