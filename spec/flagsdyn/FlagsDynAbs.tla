----------------------------- MODULE FlagsDynAbs -----------------------------
(***************************************************************************)
(* C16, dynamic contract table - the ABSTRACT state machine: a chain on    *)
(* which transactions run invocations while the contract table changes     *)
(* under them.  A step is taken only if the clauses of FlagsDyn allow it   *)
(* (Judge = {}); WHICH flag set a new frame gets, whether a permitted call *)
(* is made at all ... is left open: the statement only forbids.            *)
(*                                                                         *)
(* state   tbl, blk   contract table, blocked hashes of the running        *)
(*                    transaction (between transactions: of the chain)     *)
(*         base       [tbl, blk] the transaction started from - what a     *)
(*                    FAULT restores                                       *)
(*         stack      invocation stack (<<>>: no transaction is running)   *)
(*         nmg, ntx   bounds: management operations of the running         *)
(*                    transaction, transactions started                    *)
(*         last       [k, bad]: kind of the last step and the clauses it   *)
(*                    falsified (always {} here; FlagsDynImpl fills it     *)
(*                    with what ITS steps falsify)                         *)
(* actions BeginTx, Call / CallT (Enter), Return, Put / Notify (Effect),   *)
(*         MgmtDeploy / MgmtUpdate / MgmtDestroy, DeployCallback, MgmtFin, *)
(*         EndTx(HALT | FAULT)                                             *)
(*                                                                         *)
(* ContractManagement ("M") is called like any contract (frame M, phase    *)
(* "op"); its method then changes the table (a gated effect), calls the    *)
(* new contract's _deploy (phase "cb" -> frame of kind n -> phase "fin"),  *)
(* emits its notification and returns (MgmtFin).  update / destroy act on  *)
(* the contract that CALLED M.                                             *)
(***************************************************************************)
EXTENDS FlagsDyn

CONSTANTS Contracts,      \* names (hashes) of the contracts of the universe
          Cat,            \* [c |-> sequence of the manifests c can have]
          Rule,           \* "loaded" | "stored"
          ReqSets,        \* the flag sets calls are made with
          Tokens,         \* method tokens of NEF "n1": sequence of [c, m, a, fl]
          InitTables,     \* the contract tables the chain may start with
          MaxDepth,       \* contract frames above the entry script
          MaxMgmt,        \* management operations per transaction
          MaxTx           \* transactions

VARIABLES tbl, blk, base, stack, nmg, ntx, last
avars == <<tbl, blk, base, stack, nmg, ntx, last>>

Methods == {<<"p", 2>>, <<"q", 2>>, <<"q", 3>>}
Nefs == {"n0", "n1"}
Running == stack # <<>>
Depth == Cardinality({i \in 2..Len(stack) : stack[i].hash # MgmtHash})
NoStep == [k |-> "none", bad |-> {}]

EnterStep(kind, c, m, a, req, fl) == [k |-> "enter", kind |-> kind, c |-> c, m |-> m, a |-> a, req |-> req, fl |-> fl]
EffStep(e, f) == [k |-> "eff", e |-> e, f |-> f]
MgmtStep(op, c, f) == [k |-> "mgmt", op |-> op, c |-> c, f |-> f]

(* the state changes of the steps, WITHOUT their guards (shared with FlagsDynImpl) *)
DoEnter(s, man, nef) ==
    /\ stack' = Append(stack, [Entered(tbl, s) EXCEPT !.man = man, !.nef = nef])
    /\ UNCHANGED <<tbl, blk, base, nmg, ntx>>
DoReturn ==
    \* the native frame that was waiting for _deploy goes on
    /\ stack' = (LET p == Pop(stack) IN
                 IF Top(stack).kind = "n" /\ Top(p).ph = "cb2" THEN [p EXCEPT ![Len(p)].ph = "fin"] ELSE p)
    /\ UNCHANGED <<tbl, blk, base, nmg, ntx>>
SetPhase(ph, c) == stack' = [stack EXCEPT ![Len(stack)].ph = ph, ![Len(stack)].tgt = c]
\* (a contract without a _deploy method is not called back)
CbPhase(man) == IF HasMeth(man, "_deploy", 2) THEN "cb" ELSE "fin"
DoDeploy(c, man) ==
    /\ tbl' = Deployed(tbl, c, man, "n0") /\ nmg' = nmg + 1 /\ SetPhase(CbPhase(man), c) /\ UNCHANGED <<blk, base, ntx>>
DoUpdate(c, man, nef) ==
    /\ tbl' = Updated(tbl, c, man, nef) /\ nmg' = nmg + 1 /\ SetPhase(CbPhase(man), c) /\ UNCHANGED <<blk, base, ntx>>
DoDestroy(c, block) ==
    /\ tbl' = Destroyed(tbl, c) /\ blk' = (IF block THEN blk \cup {c} ELSE blk) /\ nmg' = nmg + 1 /\ SetPhase("fin", c)
    /\ UNCHANGED <<base, ntx>>
DoEndTx(how) ==
    /\ stack' = <<>>
    /\ IF how = "HALT" THEN /\ UNCHANGED <<tbl, blk>> /\ base' = [tbl |-> tbl, blk |-> blk]
       ELSE /\ tbl' = base.tbl /\ blk' = base.blk /\ UNCHANGED base
    /\ UNCHANGED <<nmg, ntx>>

-----------------------------------------------------------------------------
AInit == /\ tbl \in InitTables /\ blk = {} /\ base = [tbl |-> tbl, blk |-> blk] /\ stack = <<>>
         /\ nmg = 0 /\ ntx = 0 /\ last = NoStep

Allowed(s) == Judge(Rule, tbl, blk, stack, s) = {}
Did(k) == last' = [k |-> k, bad |-> {}]
InContract == Running /\ Top(stack).hash # MgmtHash

ABeginTx == /\ ~Running /\ ntx < MaxTx
            /\ stack' = << RootFrame(AllFlags) >> /\ base' = [tbl |-> tbl, blk |-> blk] /\ nmg' = 0 /\ ntx' = ntx + 1
            /\ UNCHANGED <<tbl, blk>> /\ Did("begin")

\* System.Contract.Call / CALLT: any callee, method, requested flags; the new frame gets SOME flag set the clauses allow
AEnter(kind, c, m, a, req) ==
    /\ InContract /\ Depth < MaxDepth
    /\ \E fl \in SUBSET AllFlags :
          LET s == EnterStep(kind, c, m, a, req, fl) IN
          /\ Allowed(s)
          /\ DoEnter(s, EntryOf(tbl, c).man, EntryOf(tbl, c).nef)
    /\ Did("enter")
ACall(c, m, a, req) == AEnter("c", c, m, a, req)
ACallT(i) == /\ InContract /\ Top(stack).nef = "n1"
             /\ AEnter("t", Tokens[i].c, Tokens[i].m, Tokens[i].a, Tokens[i].fl)
ACallMgmt(op, req) == AEnter("c", MgmtHash, op, IF op = "destroy" THEN 0 ELSE 3, req)

AReturn == /\ Len(stack) > 1 /\ Top(stack).hash # MgmtHash
           /\ DoReturn /\ Did("ret")

AEffect(e) == /\ InContract /\ Top(stack).kind # "r"
              /\ Allowed(EffStep(e, Len(stack)))
              /\ UNCHANGED <<tbl, blk, base, stack, nmg, ntx>> /\ Did("eff")

\* the native frame executing deploy / update / destroy
InMgmt(op) == Running /\ Top(stack).hash = MgmtHash /\ Top(stack).ph = "op" /\ Top(stack).meth = op /\ nmg < MaxMgmt
AMgmtDeploy(c, i) ==
    /\ InMgmt("deploy") /\ ~IsLive(tbl, c)
    /\ Allowed(MgmtStep("deploy", c, Len(stack)))
    /\ DoDeploy(c, Cat[c][i]) /\ Did("mgmt")
AMgmtUpdate(c, i, nef) ==
    /\ InMgmt("update") /\ stack[Len(stack) - 1].hash = c /\ IsLive(tbl, c)
    /\ Allowed(MgmtStep("update", c, Len(stack)))
    /\ DoUpdate(c, Cat[c][i], nef) /\ Did("mgmt")
AMgmtDestroy(c) ==
    /\ InMgmt("destroy") /\ stack[Len(stack) - 1].hash = c /\ IsLive(tbl, c)
    /\ Allowed(MgmtStep("destroy", c, Len(stack)))
    /\ DoDestroy(c, TRUE) /\ Did("mgmt")
\* ContractManagement calls the _deploy method of the contract it has just written
ADeployCallback ==
    /\ Running /\ Top(stack).hash = MgmtHash /\ Top(stack).ph = "cb"
    /\ \E fl \in SUBSET AllFlags :
          LET c == Top(stack).tgt
              s == EnterStep("n", c, "_deploy", 2, AllFlags, fl) IN
          /\ Allowed(s)
          /\ stack' = Append([stack EXCEPT ![Len(stack)].ph = "cb2"], Entered(tbl, s))
          /\ UNCHANGED <<tbl, blk, base, nmg, ntx>>
    /\ Did("enter")
\* ... emits its Deploy / Update / Destroy notification and returns
AMgmtFin ==
    /\ Running /\ Top(stack).hash = MgmtHash /\ Top(stack).ph = "fin"
    /\ Allowed(EffStep("n", Len(stack)))
    /\ stack' = Pop(stack) /\ UNCHANGED <<tbl, blk, base, nmg, ntx>> /\ Did("eff")

AEndTx(how) == /\ Running /\ (how = "HALT" => Len(stack) = 1)
               /\ DoEndTx(how) /\ Did("end")

ANext == \/ ABeginTx \/ AReturn \/ ADeployCallback \/ AMgmtFin
         \/ \E how \in {"HALT", "FAULT"} : AEndTx(how)
         \/ \E e \in {"w", "n"} : AEffect(e)
         \/ \E c \in Contracts, ma \in Methods, req \in ReqSets : ACall(c, ma[1], ma[2], req)
         \/ \E i \in DOMAIN Tokens : ACallT(i)
         \/ \E op \in {"deploy", "update", "destroy"}, req \in ReqSets : ACallMgmt(op, req)
         \/ \E c \in Contracts : \/ AMgmtDestroy(c)
                                 \/ \E i \in DOMAIN Cat[c] : AMgmtDeploy(c, i) \/ \E nef \in Nefs : AMgmtUpdate(c, i, nef)

ASpec == AInit /\ [][ANext]_avars

-----------------------------------------------------------------------------
(* consequences the abstract level must have (checked by TLC on ASpec itself and on the Impl model) *)
TypeOK ==
    /\ \A c \in Contracts : tbl[c].st \in {"absent", "live", "dead"} /\ (tbl[c].st # "live" => tbl[c].man = EmptyMan)
    /\ blk \subseteq Contracts
    /\ Running => stack[1].hash = EntryHash /\ \A i \in 2..Len(stack) : stack[i].hash \in Contracts \cup {MgmtHash}
    /\ \A i \in DOMAIN stack : stack[i].fl \subseteq AllFlags
    /\ ~Running => base = [tbl |-> tbl, blk |-> blk]
\* flags only shrink along the whole stack; nothing above a frame entered through a safe method can write or notify
StackConfined ==
    \A i \in 2..Len(stack) : /\ stack[i].fl \subseteq stack[i - 1].fl
                             /\ (\E j \in 1..i : stack[j].safe) => stack[i].fl \cap {W, N} = {}
\* a destroyed contract is blocked, and comes back only by a rollback
DeadBlocked == \A c \in Contracts : tbl[c].st = "dead" => c \in blk
DeadForEver == [][\A c \in Contracts : (tbl[c].st = "dead" /\ tbl'[c].st # "dead") => tbl' = base.tbl]_avars
=============================================================================
