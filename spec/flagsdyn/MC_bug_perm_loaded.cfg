SPECIFICATION ISpec
CONSTANTS
  Universe = "two"
  Rule = "loaded"
  Bug = "PermWrongManifest"
  MgmtReq = "all"
  Contracts <- MCContracts
  Cat <- MCCat
  Tokens <- MCTokens
  ReqSets <- MCReqSets
  InitTables <- MCInitTables
  MaxDepth = 2
  MaxMgmt = 1
  MaxTx = 1
INVARIANTS CallImpliesPermission
CHECK_DEADLOCK FALSE
