---------------------------- MODULE FlagsDynTrace ----------------------------
(***************************************************************************)
(* C16, dynamic contract table - judges what the REAL engine did           *)
(* (harness/c16dyn: real transactions of real blocks of a neotest chain,   *)
(* every one of them observed instruction by instruction) with the         *)
(* ABSTRACT clauses of FlagsDyn over the contract table AS THE             *)
(* SPECIFICATION TRACKS IT from the management operations that really      *)
(* completed.                                                              *)
(*                                                                         *)
(* trace.ndjson - several histories, each starting with "init":            *)
(*  init     rule ("loaded": hardfork Domovoi active on this chain |       *)
(*           "stored"), cat {c: [manifest..]} the manifests contract c can *)
(*           have (perms, meths, groups), tbl {c: {st, mv, nef, uc}} the   *)
(*           table READ BACK from the chain (mv: index into cat[c]),       *)
(*           blocked [c..]                                                 *)
(*  begintx  fl: call flags of the entry script's real context             *)
(*  enter    a new real vm.Context: id, par (id of the context below it),  *)
(*           kind c System.Contract.Call | t CALLT | n loaded by native    *)
(*           code (_deploy); c callee, m method, a number of arguments,    *)
(*           req requested flags (call argument / token field), fl flags   *)
(*           READ FROM THE CONTEXT; lmv, lnef: manifest / NEF the context  *)
(*           carries (0: not one of cat); cs {st, mv, nef, uc}: the        *)
(*           callee as ic.GetContract answered right before the call       *)
(*  ret      id: the context left the invocation stack                     *)
(*  eff      f: id of the acting context, e: w (the DAO layer of the       *)
(*           invocation changed) | n (the notification list grew)          *)
(*  mgmt     ContractManagement's deploy | update | destroy (op) completed *)
(*           in native context f for contract c with manifest mv, NEF nef  *)
(*           (the ARGUMENTS of the call)                                   *)
(*  refused  (informative) the instruction that FAULTed the transaction    *)
(*  endtx    how: HALT | FAULT                                             *)
(*  confirm  ok: the same transaction inside the real block left the same  *)
(*           application log (state, fault, stack with the probes' own     *)
(*           markers and GetCallFlags readings, notifications)             *)
(*  block    cache / stored: the table after the block as                  *)
(*           ContractManagement answers / as decoded from its storage;     *)
(*           blocked: hashes Policy reports blocked                        *)
(*                                                                         *)
(* Reported names                                                          *)
(*   C16 proper   FlagsShrink, CallImpliesAllowCall, NoCallToDead,         *)
(*                SafeStripped, CallImpliesPermission, EffectImpliesFlag,  *)
(*                SafeNeverWrites, BlockedHashRedeployed                   *)
(*   the binding  ModelStep (an event the abstract machine has no step     *)
(*                for), BlockConfirms: nothing is judged from the start of *)
(*                that transaction on; TableStored, TableCache: nothing is *)
(*                judged AFTER that block; TableInTx, LoadedManifest,      *)
(*                BlockedList: reported as drift (a stale table is exactly *)
(*                what makes these clauses fail)                           *)
(* Total and deterministic: every line is consumed, nothing blocks.        *)
(***************************************************************************)
EXTENDS TraceIO, FlagsDyn, SequencesExt

VARIABLES l, h0, tbl, blk, base, stack
tvars == <<l, h0, tbl, blk, base, stack>>

\* the catalogue of the current history: constant-level look-ups into the log
NormMan(j) == Man([k \in DOMAIN j.perms |-> Perm(j.perms[k].kind, j.perms[k].target, j.perms[k].wild, ToSet(j.perms[k].methods))],
                  j.meths, ToSet(j.groups))
ManOf(c, i) == IF c = MgmtHash THEN MgmtMan
               ELSE IF c \in DOMAIN TLog[h0].cat /\ i \in DOMAIN TLog[h0].cat[c] THEN NormMan(TLog[h0].cat[c][i])
               ELSE EmptyMan
RuleNow == TLog[h0].rule

NormE(e) == [st |-> e.st, mv |-> e.mv, nef |-> e.nef, uc |-> e.uc]
NormT(t) == [c \in DOMAIN t |-> NormE(t[c])]
AbsE == [st |-> "absent", mv |-> 0, nef |-> "n0", uc |-> 0]
\* what a read-back can show: a destroyed contract is simply not there
ShownE(e) == IF e.st = "live" THEN e ELSE AbsE
Shown(t) == [c \in DOMAIN t |-> ShownE(t[c])]

\* the views the clauses of FlagsDyn are evaluated on
RT == [c \in DOMAIN tbl |-> [st |-> tbl[c].st, man |-> IF tbl[c].st = "live" THEN ManOf(c, tbl[c].mv) ELSE EmptyMan,
                             nef |-> tbl[c].nef, uc |-> tbl[c].uc]]
RF(f) == Frame(f.hash, f.meth, f.ar, f.kind, f.req, f.fl, ManOf(f.hash, f.mv), f.nef, f.safe, "run")
RS == [i \in DOMAIN stack |-> RF(stack[i])]

TF(id, hash, meth, ar, kind, req, fl, mv, nef, safe) ==
    [id |-> id, hash |-> hash, meth |-> meth, ar |-> ar, kind |-> kind, req |-> req, fl |-> fl, mv |-> mv, nef |-> nef, safe |-> safe]
IdxOf(id) == IF \E i \in DOMAIN stack : stack[i].id = id THEN CHOOSE i \in DOMAIN stack : stack[i].id = id ELSE 0
Running == stack # <<>>
Known(c) == c = MgmtHash \/ c \in DOMAIN tbl

Init == l = 1 /\ h0 = 1 /\ tbl = <<>> /\ blk = {} /\ base = [tbl |-> <<>>, blk |-> {}] /\ stack = <<>>

Step ==
    /\ l <= Len(TLog)
    /\ l' = l + 1
    /\ LET e == TLog[l] IN
       CASE e.event = "init" ->
              /\ h0' = l /\ tbl' = NormT(e.tbl) /\ blk' = ToSet(e.blocked)
              /\ base' = [tbl |-> NormT(e.tbl), blk |-> ToSet(e.blocked)] /\ stack' = <<>>
         [] e.event = "begintx" ->
              /\ stack' = << TF(0, EntryHash, "", 0, "r", AllFlags, Bits(e.fl), 0, "n0", FALSE) >>
              /\ base' = [tbl |-> tbl, blk |-> blk] /\ UNCHANGED <<h0, tbl, blk>>
              /\ Report(l, NameIf(~Running, "ModelStep"), [ev |-> e])
         [] e.event = "enter" ->
              LET ok == Running /\ Top(stack).id = e.par /\ Known(e.c) /\ e.kind \in {"c", "t", "n"} IN
              /\ UNCHANGED <<h0, tbl, blk, base>>
              /\ IF ~ok THEN UNCHANGED stack /\ Report(l, {"ModelStep"}, [ev |-> e])
                 ELSE LET s == [k |-> "enter", kind |-> e.kind, c |-> e.c, m |-> e.m, a |-> e.a,
                                req |-> Bits(e.req), fl |-> Bits(e.fl)]
                          ent == EntryOf(RT, e.c)
                          cur == IF e.c = MgmtHash THEN [st |-> "live", mv |-> 0, nef |-> "n0", uc |-> 0] ELSE tbl[e.c]
                      IN /\ stack' = Append(stack, TF(e.id, e.c, e.m, e.a, e.kind, Bits(e.req), Bits(e.fl), cur.mv, cur.nef,
                                                      IsSafe(ent.man, e.m, e.a)))
                         /\ Report(l, Judge(RuleNow, RT, blk, RS, s)
                                      \cup NameIf(e.c = MgmtHash \/ NormE(e.cs) = ShownE(tbl[e.c]), "TableInTx")
                                      \cup NameIf(e.c = MgmtHash \/ e.lmv = 0 \/ cur.st # "live"
                                                  \/ (e.lmv = cur.mv /\ e.lnef = cur.nef), "LoadedManifest"),
                                   [ev |-> e, rule |-> RuleNow, tbl |-> tbl,
                                    caller |-> [hash |-> Top(stack).hash, mv |-> Top(stack).mv, fl |-> ToInt(Top(stack).fl)],
                                    safe |-> IsSafe(ent.man, e.m, e.a), after |-> IF e.c = MgmtHash THEN "none" ELSE
                                        (IF cur.st = "dead" THEN "destroy" ELSE IF cur.uc > base.tbl[e.c].uc \/ base.tbl[e.c].st # "live" THEN
                                            (IF base.tbl[e.c].st # "live" THEN "deploy" ELSE "update") ELSE "none")])
         [] e.event = "ret" ->
              /\ UNCHANGED <<h0, tbl, blk, base>>
              /\ IF Len(stack) > 1 /\ Top(stack).id = e.id THEN stack' = Pop(stack) /\ Report(l, {}, [ev |-> e])
                 ELSE UNCHANGED stack /\ Report(l, {"ModelStep"}, [ev |-> e])
         [] e.event = "eff" ->
              /\ UNCHANGED <<h0, tbl, blk, base, stack>>
              /\ IF IdxOf(e.f) = 0 THEN Report(l, {"ModelStep"}, [ev |-> e])
                 ELSE Report(l, Judge(RuleNow, RT, blk, RS, [k |-> "eff", e |-> e.e, f |-> IdxOf(e.f)]),
                             [ev |-> e, frame |-> [hash |-> stack[IdxOf(e.f)].hash, fl |-> ToInt(stack[IdxOf(e.f)].fl)],
                              safe |-> {stack[i].hash : i \in {j \in 1..IdxOf(e.f) : stack[j].safe}}])
         [] e.event = "mgmt" ->
              LET i == IdxOf(e.f)
                  ok == /\ i # 0 /\ e.c \in DOMAIN tbl /\ stack[i].hash = MgmtHash
                        /\ IF e.op = "deploy" THEN tbl[e.c].st # "live" ELSE tbl[e.c].st = "live"
              IN
              /\ UNCHANGED <<h0, base, stack>>
              /\ IF ~ok THEN UNCHANGED <<tbl, blk>> /\ Report(l, {"ModelStep"}, [ev |-> e])
                 ELSE /\ tbl' = [tbl EXCEPT ![e.c] =
                                  CASE e.op = "deploy" -> [st |-> "live", mv |-> e.mv, nef |-> e.nef, uc |-> 0]
                                    [] e.op = "update" -> [st |-> "live", mv |-> e.mv, nef |-> e.nef, uc |-> @.uc + 1]
                                    [] OTHER -> [st |-> "dead", mv |-> 0, nef |-> "n0", uc |-> 0]]
                      /\ blk' = IF e.op = "destroy" THEN blk \cup {e.c} ELSE blk
                      /\ Report(l, Judge(RuleNow, RT, blk, RS, [k |-> "mgmt", op |-> e.op, c |-> e.c, f |-> i]),
                                [ev |-> e, frame |-> [fl |-> ToInt(stack[i].fl)], was |-> tbl[e.c].st, blocked |-> e.c \in blk])
         [] e.event = "endtx" ->
              /\ stack' = <<>> /\ UNCHANGED h0
              /\ IF e.how = "HALT" THEN UNCHANGED <<tbl, blk>> /\ base' = [tbl |-> tbl, blk |-> blk]
                 ELSE tbl' = base.tbl /\ blk' = base.blk /\ UNCHANGED base
              /\ Report(l, NameIf(Running /\ (e.how = "HALT" => Len(stack) = 1), "ModelStep"), [ev |-> e])
         [] e.event = "confirm" ->
              /\ UNCHANGED <<h0, tbl, blk, base, stack>>
              /\ Report(l, NameIf(e.ok, "BlockConfirms"), [ev |-> e])
         [] e.event = "block" ->
              /\ UNCHANGED <<h0, tbl, blk, base, stack>>
              /\ Report(l, NameIf(~Running, "ModelStep")
                           \cup NameIf(NormT(e.cache) = Shown(tbl), "TableCache")
                           \cup NameIf(NormT(e.stored) = Shown(tbl), "TableStored")
                           \cup NameIf(ToSet(e.blocked) = blk, "BlockedList"),
                        [ev |-> e, tbl |-> tbl, blk |-> blk])
         [] OTHER ->
              /\ UNCHANGED <<h0, tbl, blk, base, stack>>
              /\ Report(l, {}, [ev |-> e])

TraceSpec == Init /\ [][Step]_tvars
=============================================================================
