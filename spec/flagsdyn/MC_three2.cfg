SPECIFICATION ISpec
CONSTANTS
  Universe = "quick"
  Rule = "loaded"
  Bug = "none"
  MgmtReq = "all"
  Contracts <- MCContracts
  Cat <- MCCat
  Tokens <- MCTokens
  ReqSets <- MCReqSets
  InitTables <- MCInitTables
  MaxDepth = 2
  MaxMgmt = 2
  MaxTx = 2
INVARIANTS FlagsShrink CallImpliesAllowCall NoCallToDead SafeStripped CallImpliesPermission EffectImpliesFlag SafeNeverWrites NoBlockedRedeploy Coherent
CHECK_DEADLOCK FALSE
