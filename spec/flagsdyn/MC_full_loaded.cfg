SPECIFICATION ISpec
CONSTANTS
  Universe = "full"
  Rule = "loaded"
  Bug = "none"
  MgmtReq = "all"
  Contracts <- MCContracts
  Cat <- MCCat
  Tokens <- MCTokens
  ReqSets <- MCReqSets
  InitTables <- MCInitTables
  MaxDepth = 3
  MaxMgmt = 2
  MaxTx = 1
INVARIANTS FlagsShrink CallImpliesAllowCall NoCallToDead SafeStripped CallImpliesPermission EffectImpliesFlag SafeNeverWrites NoBlockedRedeploy Coherent
CHECK_DEADLOCK FALSE
