----------------------------- MODULE FlagsDynImpl -----------------------------
(***************************************************************************)
(* C16, dynamic contract table - IMPLEMENTATION-SHAPED model: one action   *)
(* per code path of neo-go, over the state of FlagsDynAbs.                 *)
(*                                                                         *)
(*   ICall     pkg/core/interop/contract/call.go  Call -> callInternal ->  *)
(*             callExFromNative.  Required flags ReadStates|AllowCall      *)
(*             (interop table).  The callee's contract state is            *)
(*             ic.GetContract(u) = native.GetContract(ic.DAO): the DAO's   *)
(*             CURRENT table; names starting with '_' are refused; the     *)
(*             method is looked up by name and argument count in the       *)
(*             CURRENT manifest; md.Safe (current manifest) strips         *)
(*             WriteStates|AllowNotify, otherwise - if the executing       *)
(*             context is a deployed contract - the permission check:      *)
(*             from hardfork Domovoi on against ctx.GetManifest() (the     *)
(*             manifest the context was LOADED with), before it against    *)
(*             ic.GetContract(current hash).Manifest (the STORED one; no   *)
(*             check at all when the caller does not exist any more);      *)
(*             callExFromNative refuses a blocked callee (Policy) and      *)
(*             loads the callee with  f = current flags & f.               *)
(*   ICallT    call.go LoadToken: token i of the NEF the context was       *)
(*             loaded with; same required flags; ic.GetContract(tok.Hash); *)
(*             callInternal with the token's own call flags.               *)
(*   IMgmt*    native/interop.go Call (required flags of the method:       *)
(*             deploy / update All, destroy States|AllowNotify) and        *)
(*             native/management.go Deploy (hash blocked by Policy ->      *)
(*             refused; exists -> refused), Update (acts on the CALLING    *)
(*             script hash), destroyInternalDeferrable (erases the         *)
(*             contract, Policy.BlockAccount of its hash).                 *)
(*   IDeployCb management.go callDeployDeferrable -> contract.             *)
(*             CallFromNative(callflag.All): the NEW contract state is     *)
(*             loaded, flags = native frame's flags & All.                 *)
(*   IMgmtFin  the Deploy / Update / Destroy notification, then the native *)
(*             frame returns.                                              *)
(*   IPut      System.Storage.GetContext (ReadStates; the executing        *)
(*             contract must still exist) + Put (WriteStates)              *)
(*   INotify   System.Runtime.Notify (AllowNotify)                         *)
(*                                                                         *)
(* Every step records in last.bad the clauses of FlagsDyn it falsifies;    *)
(* TLC checks last.bad = {} in every reachable state (Impl => Abstract).   *)
(* Bug names a deliberately wrong variant TLC must refute:                 *)
(*   "PermWrongManifest"    the permission check reads the OTHER manifest  *)
(*                          (Rule = stored: the one the caller was loaded  *)
(*                          with, stale after a self-update; Rule =        *)
(*                          loaded: the stored one)                        *)
(*   "SafeFromTxStart"      the safe mark is taken from the callee's       *)
(*                          manifest as of the start of the transaction    *)
(*   "DeadCallable"         a destroyed callee stays callable until the    *)
(*                          transaction ends                               *)
(*   "NoBlocklistOnDeploy"  deploy does not consult the blocked hashes     *)
(*   "DestroyNoBlock"       destroy does not block the hash                *)
(*   "DeployCbAllFlags"     _deploy runs with All flags whatever the       *)
(*                          native frame has (observable only where        *)
(*                          deploy does not itself require All:            *)
(*                          MgmtReq = "legacy", the flags required before  *)
(*                          hardfork Aspidochelone)                        *)
(*   "TokenCached"          CALLT resolves its token against the contract  *)
(*                          state as of the start of the transaction       *)
(*   "UpdateKeepsGroups"    update keeps the old manifest's groups         *)
(*   "DeployNoWrite"        deploy / update do not require WriteStates     *)
(***************************************************************************)
EXTENDS FlagsDynAbs

CONSTANTS Bug, MgmtReq

\* the contract table as the DAO of the running transaction holds it (ContractManagement's records and cache), and as it
\* was when the transaction started.  tbl stays what the statement makes of the management operations that succeeded;
\* the two differ only under a deviation (invariant DaoIsTable).
VARIABLES dao, dbase
ivars == <<tbl, blk, base, stack, nmg, ntx, last, dao, dbase>>
SameDao == UNCHANGED <<dao, dbase>>

ILookup(c, cached) ==
    IF c = MgmtHash THEN [found |-> TRUE, e |-> MgmtE]
    ELSE IF cached THEN [found |-> dbase[c].st = "live", e |-> dbase[c]]
    ELSE IF dao[c].st = "live" THEN [found |-> TRUE, e |-> dao[c]]
    ELSE IF Bug = "DeadCallable" /\ dao[c].st = "dead" /\ dbase[c].st = "live" THEN [found |-> TRUE, e |-> dbase[c]]
    ELSE [found |-> FALSE, e |-> AbsentE]

ISafe(c, e, m, a) ==
    IF Bug = "SafeFromTxStart" /\ c \in Contracts /\ dbase[c].st = "live" /\ HasMeth(dbase[c].man, m, a)
    THEN IsSafe(dbase[c].man, m, a) ELSE IsSafe(e.man, m, a)

IRule == IF Bug = "PermWrongManifest" THEN (IF Rule = "loaded" THEN "stored" ELSE "loaded") ELSE Rule
IPermOK(c, e, m) ==
    LET f == Top(stack) IN
    IF ~IsDeployedFrame(f) THEN TRUE
    ELSE IF IRule = "loaded" THEN CanCall(f.man.perms, c, e.man.groups, m)
    ELSE IF IsLive(dao, f.hash) THEN CanCall(dao[f.hash].man.perms, c, e.man.groups, m)
    ELSE TRUE

\* the flags the callee is loaded with
ICallFlags(c, e, m, a, req) == Top(stack).fl \cap (IF ISafe(c, e, m, a) THEN req \ {W, N} ELSE req)
\* would the call go through?
ICallOK(kind, c, m, a, req) ==
    LET lk == ILookup(c, kind = "t" /\ Bug = "TokenCached") IN
    /\ {R, C} \subseteq Top(stack).fl
    /\ lk.found
    /\ m # "_deploy"
    /\ HasMeth(lk.e.man, m, a)
    /\ (ISafe(c, lk.e, m, a) \/ IPermOK(c, lk.e, m))
    /\ (c \notin blk \/ Bug = "DeadCallable")

Judged(k, s) == last' = [k |-> k, bad |-> Judge(Rule, tbl, blk, stack, s)]

IEnter(kind, c, m, a, req) ==
    /\ InContract /\ Depth < MaxDepth
    /\ ICallOK(kind, c, m, a, req)
    /\ LET lk == ILookup(c, kind = "t" /\ Bug = "TokenCached")
           s == EnterStep(kind, c, m, a, req, ICallFlags(c, lk.e, m, a, req))
       IN DoEnter(s, lk.e.man, lk.e.nef) /\ Judged("enter", s) /\ SameDao
ICall(c, m, a, req) == IEnter("c", c, m, a, req)
ITokOK(i) == Top(stack).nef = "n1" /\ ICallOK("t", Tokens[i].c, Tokens[i].m, Tokens[i].a, Tokens[i].fl)
ICallT(i) == /\ InContract /\ Top(stack).nef = "n1"
             /\ IEnter("t", Tokens[i].c, Tokens[i].m, Tokens[i].a, Tokens[i].fl)
MgmtAr(op) == IF op = "destroy" THEN 0 ELSE 3
ICallMgmt(op, req) == IEnter("c", MgmtHash, op, MgmtAr(op), req)

IReturn == /\ Len(stack) > 1 /\ Top(stack).hash # MgmtHash
           /\ DoReturn /\ last' = [k |-> "ret", bad |-> {}] /\ SameDao

\* (GetContext looks the executing contract up in the table: a contract that destroyed itself has no storage any more)
IPutOK == {R, W} \subseteq Top(stack).fl /\ IsLive(dao, Top(stack).hash)
INotifyOK == N \in Top(stack).fl
IEffect(e) == /\ InContract /\ Top(stack).kind # "r"
              /\ IF e = "w" THEN IPutOK ELSE INotifyOK
              /\ UNCHANGED <<tbl, blk, base, stack, nmg, ntx>> /\ Judged("eff", EffStep(e, Len(stack))) /\ SameDao

\* required call flags of the native methods (native/management.go NewManagement, native/interop.go Call)
IReqOf(op) ==
    IF op = "destroy" THEN {R, W, N}
    ELSE (IF MgmtReq = "legacy" THEN {R, W, N} ELSE AllFlags) \ (IF Bug = "DeployNoWrite" THEN {W} ELSE {})
INativeOK(op) == IReqOf(op) \subseteq Top(stack).fl
Caller == stack[Len(stack) - 1].hash

IDeployOK(c) == INativeOK("deploy") /\ (c \notin blk \/ Bug = "NoBlocklistOnDeploy") /\ ~IsLive(dao, c)
IMgmtDeploy(c, i) ==
    /\ InMgmt("deploy") /\ IDeployOK(c)
    /\ DoDeploy(c, Cat[c][i]) /\ Judged("mgmt", MgmtStep("deploy", c, Len(stack)))
    /\ dao' = Deployed(dao, c, Cat[c][i], "n0") /\ UNCHANGED dbase
IUpdateOK == INativeOK("update") /\ Caller \in Contracts /\ IsLive(dao, Caller)
IMgmtUpdate(c, i, nef) ==
    /\ InMgmt("update") /\ IUpdateOK /\ Caller = c
    /\ DoUpdate(c, Cat[c][i], nef) /\ Judged("mgmt", MgmtStep("update", c, Len(stack)))
    /\ dao' = Updated(dao, c, IF Bug = "UpdateKeepsGroups" THEN [Cat[c][i] EXCEPT !.groups = dao[c].man.groups] ELSE Cat[c][i], nef)
    /\ UNCHANGED dbase
IDestroyOK == INativeOK("destroy") /\ Caller \in Contracts /\ IsLive(dao, Caller)
IMgmtDestroy(c) ==
    /\ InMgmt("destroy") /\ IDestroyOK /\ Caller = c
    /\ DoDestroy(c, Bug # "DestroyNoBlock") /\ Judged("mgmt", MgmtStep("destroy", c, Len(stack)))
    /\ dao' = Destroyed(dao, c) /\ UNCHANGED dbase

ICbOK == Top(stack).tgt \notin blk
IDeployCb ==
    /\ Running /\ Top(stack).hash = MgmtHash /\ Top(stack).ph = "cb" /\ ICbOK
    /\ LET c == Top(stack).tgt
           fl == IF Bug = "DeployCbAllFlags" THEN AllFlags ELSE Top(stack).fl \cap AllFlags
           s == EnterStep("n", c, "_deploy", 2, AllFlags, fl)
       IN /\ stack' = Append([stack EXCEPT ![Len(stack)].ph = "cb2"],
                              [Entered(tbl, s) EXCEPT !.man = dao[c].man, !.nef = dao[c].nef])
          /\ Judged("enter", s)
    /\ UNCHANGED <<tbl, blk, base, nmg, ntx>> /\ SameDao

IMgmtFin ==
    /\ Running /\ Top(stack).hash = MgmtHash /\ Top(stack).ph = "fin"
    /\ stack' = Pop(stack) /\ UNCHANGED <<tbl, blk, base, nmg, ntx>>
    /\ Judged("eff", EffStep("n", Len(stack))) /\ SameDao

IBeginTx == ABeginTx /\ dbase' = dao /\ UNCHANGED dao
IEndTx(how) == /\ AEndTx(how)
               /\ IF how = "HALT" THEN dbase' = dao /\ UNCHANGED dao ELSE dao' = dbase /\ UNCHANGED dbase

INext == \/ IBeginTx \/ IReturn \/ IDeployCb \/ IMgmtFin
         \/ \E how \in {"HALT", "FAULT"} : IEndTx(how)
         \/ \E e \in {"w", "n"} : IEffect(e)
         \/ \E c \in Contracts, ma \in Methods, req \in ReqSets : ICall(c, ma[1], ma[2], req)
         \/ \E i \in DOMAIN Tokens : ICallT(i)
         \/ \E op \in {"deploy", "update", "destroy"}, req \in ReqSets : ICallMgmt(op, req)
         \/ \E c \in Contracts : \/ IMgmtDestroy(c)
                                 \/ \E i \in DOMAIN Cat[c] : IMgmtDeploy(c, i) \/ \E nef \in Nefs : IMgmtUpdate(c, i, nef)

IInit == AInit /\ dao = tbl /\ dbase = tbl
ISpec == IInit /\ [][INext]_ivars

-----------------------------------------------------------------------------
(* Impl => Abstract, clause by clause *)
FlagsShrink           == "FlagsShrink" \notin last.bad
CallImpliesAllowCall  == "CallImpliesAllowCall" \notin last.bad
NoCallToDead          == "NoCallToDead" \notin last.bad
SafeStripped          == "SafeStripped" \notin last.bad
CallImpliesPermission == "CallImpliesPermission" \notin last.bad
EffectImpliesFlag     == "EffectImpliesFlag" \notin last.bad
SafeNeverWrites       == "SafeNeverWrites" \notin last.bad
NoBlockedRedeploy     == "BlockedHashRedeployed" \notin last.bad
\* without a deviation the DAO's table is the table the statement speaks about
DaoIsTable == dao = tbl /\ dbase = base.tbl
=============================================================================
