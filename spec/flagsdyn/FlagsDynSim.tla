----------------------------- MODULE FlagsDynSim -----------------------------
(* C16, dynamic contract table - behaviour generator (tlc -simulate): the implementation-shaped model plus a history
   variable.  A history is what harness/c16dyn replays on a real chain: one real transaction per begintx .. endtx,
   whose entry script interprets a program tree - nested System.Contract.Call / CALLT of the probe contracts, storage
   writes, notifications, ContractManagement.deploy / update / destroy with the requested call flags, the program of the
   _deploy callback.  Every step carries ok: whether the Impl model lets it through; a step that is refused FAULTs the
   transaction (the real VM cannot catch a failed system call).  nb: the transaction opens a new block / shares the
   block of the previous one.

   op:  begintx{nb} | call{c,m,a,req,try,ok} | callt{i,ok} | put{ok} | notify{ok} | ret
        | mcall{mop,req,ok}  the call of ContractManagement (frame M) | mop{c,mv,nv,ok} its method runs
        | cb{ok} _deploy is entered | fin{} the native frame emits its notification and returns | endtx{how} *)
EXTENDS MCFlagsDyn, Json

CONSTANTS TxSteps,      \* after that many steps a transaction only unwinds
          RefuseTicks   \* the steps of a transaction at which a refused operation may be tried (TLC picks successor
                        \* states uniformly and there are as many ways to be refused as to succeed)

VARIABLES hist, steps, doom   \* doom: this transaction may end in a refused operation (else it unwinds and HALTs)
svars == <<tbl, blk, base, stack, nmg, ntx, last, dao, dbase, hist, steps, doom>>

JE(e) == [st |-> e.st, nef |-> e.nef, uc |-> e.uc, mv |-> IF e.st # "live" THEN 0 ELSE
              (LET c == CHOOSE c \in Contracts : \E i \in DOMAIN Cat[c] : Cat[c][i] = e.man
               IN CHOOSE i \in DOMAIN Cat[c] : Cat[c][i] = e.man)]
JT(t) == [c \in DOMAIN t |-> JE(t[c])]
JMan(m) == [perms |-> [i \in DOMAIN m.perms |-> m.perms[i]], meths |-> m.meths, groups |-> m.groups]
JCat == [c \in Contracts |-> [i \in DOMAIN Cat[c] |-> JMan(Cat[c][i])]]
JTok == [i \in DOMAIN Tokens |-> [c |-> Tokens[i].c, m |-> Tokens[i].m, a |-> Tokens[i].a, fl |-> ToInt(Tokens[i].fl)]]

Log(step) == hist' = Append(hist, step @@ [bad |-> last'.bad, tbl |-> JT(tbl'), depth |-> Len(stack')])
Tick == steps' = steps + 1 /\ UNCHANGED doom
Busy == Running /\ steps < TxSteps
\* a refused step: the transaction FAULTs
Refuse(step) == doom /\ steps \in RefuseTicks /\ IEndTx("FAULT") /\ Tick /\ Log(step @@ [ok |-> FALSE])

\* the native frame has no choice: when its method is refused the transaction FAULTs whatever the step number
Forced(step) == IEndTx("FAULT") /\ Tick /\ Log(step @@ [ok |-> FALSE])

SimInit == /\ IInit /\ steps = 0 /\ doom = FALSE
           /\ hist = << [op |-> "init", tbl |-> JT(tbl), cat |-> JCat, toks |-> JTok, rule |-> Rule, contracts |-> Contracts] >>

SBegin == \E nb \in BOOLEAN, d \in BOOLEAN : IBeginTx /\ steps' = 0 /\ doom' = d /\ Log([op |-> "begintx", nb |-> nb \/ ntx = 0])

SCall == /\ Busy /\ InContract /\ Depth < MaxDepth /\ Tick
         /\ \E c \in Contracts, ma \in Methods, req \in ReqSets, try \in BOOLEAN :
              LET st == [op |-> "call", c |-> c, m |-> ma[1], a |-> ma[2], req |-> ToInt(req), try |-> try] IN
              \/ ICall(c, ma[1], ma[2], req) /\ Log(st @@ [ok |-> TRUE])
              \/ ~ICallOK("c", c, ma[1], ma[2], req) /\ ~try /\ Refuse(st)
SCallT == /\ Busy /\ InContract /\ Depth < MaxDepth /\ Tick
          /\ \E i \in DOMAIN Tokens :
               \/ ICallT(i) /\ Log([op |-> "callt", i |-> i, ok |-> TRUE])
               \/ ~ITokOK(i) /\ Top(stack).kind # "r" /\ Refuse([op |-> "callt", i |-> i])
SEffect == /\ Busy /\ InContract /\ Top(stack).kind # "r" /\ Tick
           /\ \E e \in {"w", "n"} :
                LET st == [op |-> IF e = "w" THEN "put" ELSE "notify"] IN
                \/ IEffect(e) /\ Log(st @@ [ok |-> TRUE])
                \/ ~(IF e = "w" THEN IPutOK ELSE INotifyOK) /\ Refuse(st)
SReturn == IReturn /\ Tick /\ Log([op |-> "ret"])

SMCall == /\ Busy /\ InContract /\ nmg < MaxMgmt /\ Tick
          /\ \E mop \in {"deploy", "update", "destroy"}, req \in ReqSets :
               LET st == [op |-> "mcall", mop |-> mop, req |-> ToInt(req)] IN
               /\ (IF mop = "deploy" THEN \E c \in Contracts : ~IsLive(dao, c) ELSE Top(stack).kind # "r")
               /\ (IReqOf(mop) \subseteq (Top(stack).fl \cap req) \/ (doom /\ steps \in RefuseTicks))
               /\ \/ ICallMgmt(mop, req) /\ Log(st @@ [ok |-> TRUE])
                  \/ ~ICallOK("c", MgmtHash, mop, MgmtAr(mop), req) /\ Refuse(st)
\* the native frame has no choice but to run its method
AtMgmt(ph) == Running /\ Top(stack).hash = MgmtHash /\ Top(stack).ph = ph
SMop == /\ AtMgmt("op") /\ Tick
        /\ LET mop == Top(stack).meth IN
           \/ /\ mop = "deploy"
              /\ \E c \in {x \in Contracts : ~IsLive(dao, x)} : \E i \in DOMAIN Cat[c] :
                   LET st == [op |-> "mop", mop |-> mop, c |-> c, mv |-> i, nv |-> "n0"] IN
                   \/ IMgmtDeploy(c, i) /\ Log(st @@ [ok |-> TRUE])
                   \/ ~IDeployOK(c) /\ Forced(st)
           \/ /\ mop = "update"
              /\ \E i \in {1, 2}, nef \in Nefs :
                   LET c == Caller
                       st == [op |-> "mop", mop |-> mop, c |-> c, mv |-> i, nv |-> nef] IN
                   \/ c \in Contracts /\ IMgmtUpdate(c, i, nef) /\ Log(st @@ [ok |-> TRUE])
                   \/ ~IUpdateOK /\ Forced(st)
           \/ /\ mop = "destroy"
              /\ LET c == Caller
                     st == [op |-> "mop", mop |-> mop, c |-> c, mv |-> 0, nv |-> "n0"] IN
                 \/ c \in Contracts /\ IMgmtDestroy(c) /\ Log(st @@ [ok |-> TRUE])
                 \/ ~IDestroyOK /\ Forced(st)
SCb == /\ AtMgmt("cb") /\ Tick
       /\ \/ IDeployCb /\ Log([op |-> "cb", ok |-> TRUE])
          \/ ~ICbOK /\ Forced([op |-> "cb"])
SFin == AtMgmt("fin") /\ IMgmtFin /\ Tick /\ Log([op |-> "fin"])

SHalt == steps >= 3 /\ IEndTx("HALT") /\ Tick /\ Log([op |-> "endtx", how |-> "HALT"])
SAbort == Busy /\ InContract /\ doom /\ steps \in RefuseTicks /\ IEndTx("FAULT") /\ Tick /\ Log([op |-> "endtx", how |-> "FAULT"])

\* mix: TLC picks one of the successor STATES uniformly
SimNext == \/ SBegin
           \/ SCall \/ SCallT \/ SEffect \/ SReturn \/ SMCall
           \/ SMop \/ SCb \/ SFin
           \/ SHalt \/ SAbort
SimSpec == SimInit /\ [][SimNext]_svars

Done == ntx = MaxTx /\ ~Running
Emit == ~Done \/ PrintT(<<"@@HIST@@", ToJson(hist)>>)
=============================================================================
