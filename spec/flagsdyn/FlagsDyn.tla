------------------------------- MODULE FlagsDyn -------------------------------
(***************************************************************************)
(* C16, dynamic contract table - ABSTRACT (property level) specification.  *)
(*                                                                         *)
(* Property C16 (properties.jsonl):                                        *)
(*   "Code running without the write-states flag never changes any         *)
(*    contract's storage, without the allow-notify flag never emits a      *)
(*    notification, without the allow-call flag never calls a contract,    *)
(*    and flags only shrink along a call chain; calling a method marked    *)
(*    safe never modifies state whatever flags the caller passes.  A       *)
(*    deployed contract can call a non-safe method of another contract     *)
(*    only if one of its manifest permissions matches both the callee -    *)
(*    by wildcard, hash or group membership - and the method name."        *)
(*                                                                         *)
(* spec/flags decides these clauses over a STATIC contract table.  Here    *)
(* the table CHANGES under the running invocation (ContractManagement      *)
(* deploy / update / destroy made by contracts of the call chain, by       *)
(* earlier transactions of the block) and every clause is evaluated        *)
(* against the table AT THE TIME OF THE CALL:                              *)
(*   - "marked safe" is the mark in the callee's CURRENT manifest;         *)
(*   - "the callee ... by group membership" are the groups of the          *)
(*     callee's CURRENT manifest; a destroyed contract is nobody's callee  *)
(*     and its hash can never be deployed again;                           *)
(*   - "one of ITS manifest permissions": of the manifest of the calling   *)
(*     contract.  After a contract updated itself the running frame still  *)
(*     executes the OLD code; which manifest is "its" is fixed by the      *)
(*     protocol version (parameter rule): "stored" - the manifest the      *)
(*     contract has in the table now (protocol before hardfork Domovoi);   *)
(*     "loaded" - the manifest of the version that is executing (from      *)
(*     Domovoi on: docs/node-configuration.md "use executing contract      *)
(*     state for the contract call permissions check", neo-project/neo     *)
(*     #3290).                                                             *)
(*   - a change of the contract table IS a change of a contract's storage  *)
(*     (ContractManagement's): the management operations are gated         *)
(*     effects.                                                            *)
(*                                                                         *)
(* This module has no constants and no variables: the same operators judge *)
(*   - the implementation-shaped model FlagsDynImpl (TLC, exhaustively),   *)
(*   - what the REAL engine did (FlagsDynTrace).                           *)
(* The abstract state machine built from them is FlagsDynAbs.              *)
(*                                                                         *)
(* Flag set       subset of {R, W, C, N} = ReadStates 1, WriteStates 2,    *)
(*                AllowCall 4, AllowNotify 8                               *)
(* Permission     [kind "wild"|"hash"|"group", target, wild, methods]      *)
(* Method         [n name, a number of parameters, s marked safe]          *)
(* Manifest       [perms Seq(Permission), meths Seq(Method), groups SET]   *)
(* Table          [c |-> [st "absent"|"live"|"dead", man, nef, uc]]        *)
(*                dead: destroyed - the hash is blocked for ever           *)
(* Frame          [hash, meth, ar, kind, req, fl, man, nef, safe, ph, tgt] *)
(*                kind  r entry script | c System.Contract.Call | t CALLT  *)
(*                      | n call made by native code (_deploy)             *)
(*                fl    the frame's flag set;  req the requested one       *)
(*                man   the manifest the frame was loaded with, nef its    *)
(*                      NEF (method tokens)                                *)
(*                safe  the method it was entered through was marked safe  *)
(*                      in the callee's manifest at that moment            *)
(*                ph    native frame: op (about to run its method), cb     *)
(*                      (table written, _deploy of tgt not yet called),    *)
(*                      cb2 (waiting for _deploy), fin; others: run        *)
(* Step           [k "enter", kind, c, m, a, req, fl]                      *)
(*                [k "eff", e "w"|"n", f]     f: index of the acting frame *)
(*                [k "mgmt", op "deploy"|"update"|"destroy", c, f]         *)
(***************************************************************************)
EXTENDS Integers, Sequences, FiniteSets

R == 1
W == 2
C == 4
N == 8
AllFlags == {R, W, C, N}
Bits(n)  == {b \in AllFlags : (n \div b) % 2 = 1}
ToInt(S) == (IF R \in S THEN R ELSE 0) + (IF W \in S THEN W ELSE 0)
          + (IF C \in S THEN C ELSE 0) + (IF N \in S THEN N ELSE 0)

EntryHash == "E"
MgmtHash  == "M"

-----------------------------------------------------------------------------
(* manifests *)
Perm(kind, target, wild, methods) == [kind |-> kind, target |-> target, wild |-> wild, methods |-> methods]
Meth(n, a, s) == [n |-> n, a |-> a, s |-> s]
Man(perms, meths, groups) == [perms |-> perms, meths |-> meths, groups |-> groups]
EmptyMan == Man(<<>>, <<>>, {})
\* the native ContractManagement as a callee: no groups, its three state-changing methods
MgmtMan == Man(<<>>, << Meth("deploy", 3, FALSE), Meth("update", 3, FALSE), Meth("destroy", 0, FALSE) >>, {})

HasMeth(man, m, a) == \E i \in DOMAIN man.meths : man.meths[i].n = m /\ man.meths[i].a = a
IsSafe(man, m, a)  == \E i \in DOMAIN man.meths : man.meths[i].n = m /\ man.meths[i].a = a /\ man.meths[i].s

CalleeMatch(p, hash, groups) ==
    CASE p.kind = "wild"  -> TRUE
      [] p.kind = "hash"  -> p.target = hash
      [] p.kind = "group" -> p.target \in groups
      [] OTHER -> FALSE
MethodMatch(p, method) == p.wild \/ method \in p.methods
CanCall(perms, hash, groups, method) ==
    \E i \in DOMAIN perms : CalleeMatch(perms[i], hash, groups) /\ MethodMatch(perms[i], method)

-----------------------------------------------------------------------------
(* the contract table *)
AbsentE == [st |-> "absent", man |-> EmptyMan, nef |-> "n0", uc |-> 0]
DeadE   == [st |-> "dead", man |-> EmptyMan, nef |-> "n0", uc |-> 0]
LiveE(man, nef, uc) == [st |-> "live", man |-> man, nef |-> nef, uc |-> uc]
MgmtE   == LiveE(MgmtMan, "n0", 0)

\* what the table says about callee c right now
EntryOf(t, c) == IF c = MgmtHash THEN MgmtE ELSE IF c \in DOMAIN t THEN t[c] ELSE AbsentE
IsLive(t, c) == EntryOf(t, c).st = "live"

Deployed(t, c, man, nef) == [t EXCEPT ![c] = LiveE(man, nef, 0)]
Updated(t, c, man, nef)  == [t EXCEPT ![c] = LiveE(man, nef, t[c].uc + 1)]
Destroyed(t, c)          == [t EXCEPT ![c] = DeadE]

-----------------------------------------------------------------------------
(* frames *)
Frame(hash, meth, ar, kind, req, fl, man, nef, safe, ph) ==
    [hash |-> hash, meth |-> meth, ar |-> ar, kind |-> kind, req |-> req, fl |-> fl, man |-> man, nef |-> nef,
     safe |-> safe, ph |-> ph, tgt |-> ""]
RootFrame(fl) == Frame(EntryHash, "", 0, "r", AllFlags, fl, EmptyMan, "n0", FALSE, "run")
Top(st) == st[Len(st)]
Pop(st) == SubSeq(st, 1, Len(st) - 1)
\* a frame of a deployed (non-native) contract
IsDeployedFrame(f) == f.kind # "r" /\ f.hash # MgmtHash

\* the frame a step creates (abstract bookkeeping: manifest and safe mark per the CURRENT table)
Entered(t, s) ==
    LET e == EntryOf(t, s.c) IN
    Frame(s.c, s.m, s.a, s.kind, s.req, s.fl, e.man, e.nef, IsSafe(e.man, s.m, s.a), IF s.c = MgmtHash THEN "op" ELSE "run")

-----------------------------------------------------------------------------
(* THE CLAUSES.  t, b: contract table and set of blocked hashes BEFORE the step; st: the invocation stack before the
   step (st[1] the entry script, the last one is executing); s: the step; rule: "loaded" | "stored". *)
Need(e) == CASE e = "w" -> W [] e = "n" -> N [] e = "c" -> C

\* flags only shrink along a call chain (and never beyond what the caller passes)
ShrinkOK(st, s) == s.fl \subseteq Top(st).fl /\ s.fl \subseteq s.req
\* without the allow-call flag never calls a contract
CallFlagOK(st, s) == C \in Top(st).fl
\* a method marked safe (in the callee's CURRENT manifest) runs without WriteStates / AllowNotify whatever the caller passes
SafeStripOK(t, s) == IsSafe(EntryOf(t, s.c).man, s.m, s.a) => s.fl \cap {W, N} = {}
\* the callee exists NOW and has this method NOW
LiveOK(t, s) == IsLive(t, s.c) /\ HasMeth(EntryOf(t, s.c).man, s.m, s.a)

\* the manifest of the calling contract that decides; known = FALSE: the statement does not say (the caller destroyed itself
\* and the protocol version looks at the table: there is no deployed contract any more)
CallerMan(rule, t, f) ==
    IF rule = "loaded" THEN [known |-> TRUE, man |-> f.man]
    ELSE IF IsLive(t, f.hash) THEN [known |-> TRUE, man |-> EntryOf(t, f.hash).man]
    ELSE [known |-> FALSE, man |-> EmptyMan]
PermOK(rule, t, st, s) ==
    LET f == Top(st)
        e == EntryOf(t, s.c)
        cm == CallerMan(rule, t, f)
    IN (s.kind \in {"c", "t"} /\ IsDeployedFrame(f) /\ ~IsSafe(e.man, s.m, s.a) /\ cm.known)
          => CanCall(cm.man.perms, s.c, e.man.groups, s.m)

\* an effect needs its flag in the acting frame ...
EffectOK(st, s) == Need(s.e) \in st[s.f].fl
\* ... and happens in no frame entered through a safe method, nor in anything such a frame called
SafeOK(st, f) == \A i \in 1..f : ~st[i].safe
\* management operations: the table change is a storage change made by the native frame st[s.f]
MgmtFlagOK(st, s) == W \in st[s.f].fl
\* the hash of a destroyed contract is blocked: never deployed again
RedeployOK(t, b, s) == s.op = "deploy" => (EntryOf(t, s.c).st # "dead" /\ s.c \notin b)

\* names of the clauses a step falsifies
Judge(rule, t, b, st, s) ==
    CASE s.k = "enter" ->
             (IF ShrinkOK(st, s) THEN {} ELSE {"FlagsShrink"})
        \cup (IF CallFlagOK(st, s) THEN {} ELSE {"CallImpliesAllowCall"})
        \cup (IF s.kind = "n" \/ LiveOK(t, s) THEN {} ELSE {"NoCallToDead"})
        \cup (IF SafeStripOK(t, s) THEN {} ELSE {"SafeStripped"})
        \cup (IF PermOK(rule, t, st, s) THEN {} ELSE {"CallImpliesPermission"})
      [] s.k = "eff" ->
             (IF EffectOK(st, s) THEN {} ELSE {"EffectImpliesFlag"})
        \cup (IF SafeOK(st, s.f) THEN {} ELSE {"SafeNeverWrites"})
      [] s.k = "mgmt" ->
             (IF MgmtFlagOK(st, s) THEN {} ELSE {"EffectImpliesFlag"})
        \cup (IF SafeOK(st, s.f) THEN {} ELSE {"SafeNeverWrites"})
        \cup (IF RedeployOK(t, b, s) THEN {} ELSE {"BlockedHashRedeployed"})
      [] OTHER -> {}
=============================================================================
