SPECIFICATION ISpec
CONSTANTS
  Universe = "two"
  Rule = "loaded"
  Bug = "DeployCbAllFlags"
  MgmtReq = "legacy"
  Contracts <- MCContracts
  Cat <- MCCat
  Tokens <- MCTokens
  ReqSets <- MCReqSets
  InitTables <- MCInitTables
  MaxDepth = 2
  MaxMgmt = 1
  MaxTx = 1
INVARIANTS FlagsShrink
CHECK_DEADLOCK FALSE
