SPECIFICATION SimSpec
CONSTANTS
  Universe = "sim"
  Rule = "stored"
  Bug = "none"
  MgmtReq = "all"
  Contracts <- MCContracts
  Cat <- MCCat
  Tokens <- MCTokens
  ReqSets <- MCReqSets
  InitTables <- MCInitTables
  MaxDepth = 3
  MaxMgmt = 2
  MaxTx = 3
  TxSteps = 16
  RefuseTicks = {5, 8, 11, 14}
INVARIANT Emit
CHECK_DEADLOCK FALSE
