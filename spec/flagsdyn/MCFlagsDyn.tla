----------------------------- MODULE MCFlagsDyn -----------------------------
(* C16, dynamic contract table - model-checking wrapper: the universes (contracts, the manifests each can have,
   method tokens, requested flag sets, initial tables).  The cfg files only choose names.

   Manifests (2 per contract; 2 methods p, q; one group G1):
     A1  may call anything;            q not safe;  member of G1
     A2  may call only B.p;            q SAFE;      no group
     B1  may call p of G1's members and ContractManagement;  q not safe;  no group
     B2  may call anything;            q SAFE;      member of G1
     C1  may call anything;            q/2 not safe; member of G1
     C2  may call anything of G1's members and ContractManagement.update;  q has THREE parameters, safe;  no group;
         NO _deploy method (ContractManagement does not call it back)
   so that a self-update changes the own permissions (A1->A2: stops being allowed to call ContractManagement, C, B.q),
   the callee's safe marks (q of A and B), parameter counts (q of C) and group membership (A leaves, B joins G1:
   B1's group permission stops / C2's starts matching). *)
EXTENDS FlagsDynImpl, TLC

CONSTANT Universe

D == Meth("_deploy", 2, FALSE)
Wild == Perm("wild", "", TRUE, {})
A1 == Man(<< Wild >>, << Meth("p", 2, FALSE), Meth("q", 2, FALSE), D >>, {"G1"})
A2 == Man(<< Perm("hash", "B", FALSE, {"p"}) >>, << Meth("p", 2, FALSE), Meth("q", 2, TRUE), D >>, {})
B1 == Man(<< Perm("group", "G1", FALSE, {"p"}), Perm("hash", "M", TRUE, {}) >>, << Meth("p", 2, FALSE), Meth("q", 2, FALSE), D >>, {})
B2 == Man(<< Wild >>, << Meth("p", 2, FALSE), Meth("q", 2, TRUE), D >>, {"G1"})
C1 == Man(<< Wild >>, << Meth("p", 2, FALSE), Meth("q", 2, FALSE), D >>, {"G1"})
C2 == Man(<< Perm("group", "G1", TRUE, {}), Perm("hash", "M", FALSE, {"update"}) >>, << Meth("p", 2, FALSE), Meth("q", 3, TRUE) >>, {})

MCContracts == IF Universe = "two" THEN {"A", "B"} ELSE {"A", "B", "C"}
B2n == Man(B2.perms, << Meth("p", 2, FALSE), Meth("q", 2, TRUE) >>, B2.groups)      \* (universe "two": B2 without _deploy)
MCCat == IF Universe = "two" THEN [A |-> <<A1, A2>>, B |-> <<B1, B2n>>]
         ELSE [A |-> <<A1, A2>>, B |-> <<B1, B2>>, C |-> <<C1, C2>>]

Tok(c, m, a, fl) == [c |-> c, m |-> m, a |-> a, fl |-> fl]
MCTokens == IF Universe = "two" THEN << Tok("B", "q", 2, AllFlags), Tok("A", "q", 2, AllFlags) >>
            ELSE << Tok("B", "q", 2, AllFlags), Tok("C", "q", 2, AllFlags), Tok("A", "p", 2, {R, C, W}) >>

MCReqSets == CASE Universe = "two"   -> {AllFlags, {R, C, N}, {R, W, N}}
               [] Universe = "quick" -> {AllFlags, {R, C, N}}
               [] OTHER              -> {AllFlags, {R, C, N}, {R, W, N}, {R, C}}

T3(a, b, c) == [A |-> a, B |-> b, C |-> c]
T2(a, b) == [A |-> a, B |-> b]
L(m) == LiveE(m, "n1", 1)
MCInitTables ==
    CASE Universe = "two"   -> { T2(L(A1), L(B1)) }
      [] Universe = "quick" -> { T3(L(A1), L(B1), AbsentE) }
      [] Universe = "full"  -> { T3(L(A1), L(B1), AbsentE), T3(L(A2), L(B2), L(C1)) }
      [] OTHER              -> { T3(L(A1), L(B1), AbsentE), T3(L(A1), L(B2), L(C1)), T3(L(A2), L(B1), L(C2)),
                                 T3(L(A1), AbsentE, L(C2)) }

AllClauses == last.bad = {}
\* the abstract machine alone (the two Impl variables idle)
ASpecMC == IInit /\ [][ANext /\ SameDao]_ivars
Coherent == TypeOK /\ StackConfined /\ DeadBlocked /\ DaoIsTable
=============================================================================
