SPECIFICATION ASpecMC
CONSTANTS
  Universe = "two"
  Rule = "loaded"
  Bug = "none"
  MgmtReq = "all"
  Contracts <- MCContracts
  Cat <- MCCat
  Tokens <- MCTokens
  ReqSets <- MCReqSets
  InitTables <- MCInitTables
  MaxDepth = 2
  MaxMgmt = 1
  MaxTx = 1
INVARIANTS TypeOK StackConfined DeadBlocked AllClauses
PROPERTY DeadForEver
CHECK_DEADLOCK FALSE
