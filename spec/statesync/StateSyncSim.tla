---------------------------- MODULE StateSyncSim ----------------------------
(* Delivery-schedule generator for harness/c20sync: behaviours of StateSync with the step kinds of the driver. *)
EXTENDS MCStateSync, Json

CONSTANT Depth
VARIABLE hist

Orders == {"asc", "desc", "rnd"}

SimInit == Init /\ hist = <<>>
SimNext ==
    \/ \E k \in 1..NHeaders : AddHeaders(k) /\ hist' = Append(hist, [op |-> "headers", n |-> k * 4, order |-> "asc"])
    \/ \E B \in SUBSET pool, o \in Orders : B # {} /\ AddNodes(B) /\ hist' = Append(hist, [op |-> "nodes", n |-> Cardinality(B), order |-> o])
    \/ \E B \in SUBSET pool, o \in Orders : B # {} /\ AddNodes(B) /\ hist' = Append(hist, [op |-> "nodes", n |-> Cardinality(B) * 3, order |-> o])
    \/ (stage = "mpt" /\ have # {} /\ AddNodes(have) /\ hist' = Append(hist, [op |-> "dupnodes", n |-> 0, order |-> "asc"]))
    \/ (stage = "mpt" /\ AddNodes({Junk}) /\ hist' = Append(hist, [op |-> "junknode", n |-> 0, order |-> "asc"]))
    \* one message carrying wanted nodes AND something that is not a node: the wanted ones count, the rest is ignored
    \/ \E B \in SUBSET pool, o \in Orders : B # {} /\ AddNodes(B \cup {Junk}) /\ hist' = Append(hist, [op |-> "mixednodes", n |-> Cardinality(B) * 2, order |-> o])
    \/ (stage = "headers" /\ UNCHANGED vars /\ hist' = Append(hist, [op |-> "junkheader", n |-> 0, order |-> "asc"]))
    \/ (stage = "blocks" /\ UNCHANGED vars /\ hist' = Append(hist, [op |-> "junkblock", n |-> 0, order |-> "asc"]))
    \/ AddBlock /\ hist' = Append(hist, [op |-> "blocks", n |-> 1, order |-> "asc"])
    \/ Restart /\ hist' = Append(hist, [op |-> "restart", n |-> 0, order |-> "asc"])
    \/ Restart /\ hist' = Append(hist, [op |-> "restart", n |-> 0, order |-> "asc"])
SimSpec == SimInit /\ [][SimNext]_<<vars, hist>>
Emit == (Len(hist) # Depth /\ stage # "done") \/ hist = <<>> \/ PrintT(<<"@@HIST@@", ToJson(hist)>>)
=============================================================================
