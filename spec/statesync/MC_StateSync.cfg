SPECIFICATION Spec
CONSTANTS
  Node <- N7
  Root = "r"
  Child <- C7
  NHeaders = 3
  NBlocks = 2
  MaxRestarts = 2
  BugPoolKeptOnRestart = FALSE
INVARIANTS NoCorruption PoolSound Complete
CHECK_DEADLOCK FALSE
