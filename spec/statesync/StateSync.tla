------------------------------ MODULE StateSync ------------------------------
(***************************************************************************)
(* State synchronisation of a bootstrapping node (pkg/core/statesync), MPT  *)
(* based mode.  The source state at the sync point is a tiny hash-linked    *)
(* trie: Child[n] is the set of nodes n links to; two parents may share a   *)
(* child and ONE parent may link to the same child twice (identical         *)
(* sub-tries under two slots of a branch) - the code keys its pool of       *)
(* wanted nodes by hash and keeps the set of paths per hash.                *)
(*                                                                         *)
(* Stages: headers -> mpt -> blocks -> done.  Deliveries arrive in any      *)
(* order and batching, again (duplicates), with junk in between, and the    *)
(* node may be stopped and restarted at any point: the pool and the billet  *)
(* are in memory only and are rebuilt from the store by a traversal from    *)
(* the root (defineSyncStage).                                              *)
(***************************************************************************)
EXTENDS Integers, FiniteSets, Sequences, TLC

CONSTANTS Node,      \* trie nodes of the source state
          Root,
          Child,     \* Child[n] \subseteq Node (hash links)
          NHeaders,  \* headers to fetch
          NBlocks,   \* blocks to fetch after the trie
          MaxRestarts,
          BugPoolKeptOnRestart   \* named deviation: the rebuilt pool forgets children of stored nodes

VARIABLES stage, hdr, have, pool, blk, restarts, junkSeen

vars == <<stage, hdr, have, pool, blk, restarts, junkSeen>>

Junk == "junk"

\* nodes reachable from Root through stored nodes only, and the frontier the node must ask for
RECURSIVE Reach(_, _)
Reach(front, seen) ==
    LET new == (UNION {Child[n] : n \in front \cap have}) \ seen
    IN  IF new = {} THEN seen ELSE Reach(new, seen \cup new)
Known == Reach({Root}, {Root})
Frontier == {n \in Known : n \notin have}

Init ==
    /\ stage = "headers" /\ hdr = 0 /\ have = {} /\ pool = {} /\ blk = 0 /\ restarts = 0 /\ junkSeen = FALSE

AddHeaders(k) ==
    /\ stage = "headers" /\ k \in 1..(NHeaders - hdr)
    /\ hdr' = hdr + k
    /\ IF hdr' = NHeaders THEN stage' = "mpt" /\ pool' = {Root} ELSE UNCHANGED <<stage, pool>>
    /\ UNCHANGED <<have, blk, restarts, junkSeen>>

\* a batch of nodes: the wanted ones are stored and their missing children become wanted; the rest is ignored
AddNodes(B) ==
    /\ stage = "mpt" /\ B # {}
    /\ LET good == B \cap pool
           h2   == have \cup good
           p2   == (pool \ good) \cup ((UNION {Child[n] : n \in good}) \ h2)
       IN  /\ have' = h2
           /\ pool' = p2
           /\ stage' = IF p2 = {} THEN "blocks" ELSE "mpt"
    /\ junkSeen' = (junkSeen \/ Junk \in B)
    /\ UNCHANGED <<hdr, blk, restarts>>

AddBlock ==
    /\ stage = "blocks"
    /\ blk' = blk + 1
    /\ stage' = IF blk' = NBlocks THEN "done" ELSE "blocks"
    /\ UNCHANGED <<hdr, have, pool, restarts, junkSeen>>

\* stop + start: everything in memory is rebuilt from the store
Restart ==
    /\ stage \in {"headers", "mpt", "blocks"} /\ restarts < MaxRestarts
    /\ restarts' = restarts + 1
    /\ IF stage = "mpt"
       THEN pool' = IF BugPoolKeptOnRestart THEN (IF have = {} THEN {Root} ELSE {}) ELSE Frontier
       ELSE UNCHANGED pool
    /\ stage' = IF stage = "mpt" /\ pool' = {} THEN "blocks" ELSE stage
    /\ UNCHANGED <<hdr, have, blk, junkSeen>>

Next ==
    \/ \E k \in 1..NHeaders : AddHeaders(k)
    \/ \E B \in SUBSET (Node \cup {Junk}) : AddNodes(B)
    \/ AddBlock
    \/ Restart

Spec == Init /\ [][Next]_vars

----------------------------------------------------------------------------
Reach2 == LET RECURSIVE R(_, _)
              R(front, seen) == LET new == (UNION {Child[n] : n \in front}) \ seen
                                IN IF new = {} THEN seen ELSE R(new, seen \cup new)
          IN R({Root}, {Root})

\* data that does not match is never stored
NoCorruption == have \subseteq Reach2
\* the node only wants what it can justify
PoolSound == stage = "mpt" => (pool = Frontier /\ pool # {})
\* past the trie stage the node holds exactly the source state
Complete == stage \in {"blocks", "done"} => have = Reach2
=============================================================================
