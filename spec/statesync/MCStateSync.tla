----------------------------- MODULE MCStateSync -----------------------------
EXTENDS StateSync
\* root r -> branch b with two slots holding the SAME sub-trie s (s -> leaf l), plus an extension e -> leaf m shared with b
N7 == {"r", "b", "s", "l", "e", "m", "x"}
C7 == [n \in N7 |-> CASE n = "r" -> {"b", "e"}
                      [] n = "b" -> {"s", "m"}
                      [] n = "s" -> {"l"}
                      [] n = "e" -> {"m", "x"}
                      [] OTHER -> {}]
=============================================================================
