--------------------------- MODULE StateSyncTrace ---------------------------
(* Judges what a real bootstrapping node did (harness/c20sync) against the second half of C20's statement:
     ErrorsOnlyForWrongData  a correct, wanted piece of data (headers in order, requested trie nodes, next blocks) is accepted
     JunkRejected            a header / block that does not match is refused (a trie node nobody asked for may be ignored silently)
     StageMonotone           the stages only move forward: headers -> mpt -> blocks -> done
     SyncedEqualsSource      at completion the node is at the sync point with the source's state root and storage
     Lockstep                fed the same further blocks it reproduces the source's digest at every height *)
EXTENDS TraceIO, FiniteSets

VARIABLES l, rank
vars == <<l, rank>>

Rank(p) == CASE p = "headers" -> 1 [] p = "mpt" -> 2 [] p = "blocks" -> 3 [] p = "done" -> 4 [] OTHER -> 0

Init == l = 1 /\ rank = 0

Step ==
    /\ l <= Len(TLog)
    /\ l' = l + 1
    /\ LET e == TLog[l] IN
       CASE e.event = "init" -> rank' = 0
         [] e.event = "step" /\ "after" \in DOMAIN e ->
              /\ rank' = Rank(e.after)
              /\ Report(l, NameIf(("junk" \in DOMAIN e) \/ ("dup" \in DOMAIN e) \/ ~e.expect_ok \/ e.ok, "ErrorsOnlyForWrongData")
                           \cup NameIf(~(("junk" \in DOMAIN e) /\ e.op \in {"junkheader", "junkblock"}) \/ ~e.ok, "JunkRejected")
                           \cup NameIf(Rank(e.after) >= Rank(e.phase) /\ Rank(e.phase) >= rank, "StageMonotone"),
                        [ev |-> e])
         [] e.event = "synced" ->
              /\ rank' = 4
              /\ Report(l, NameIf(e.root_ok /\ e.storage_ok /\ e.height = e.p, "SyncedEqualsSource"), [ev |-> e])
         [] e.event = "lockstep" ->
              /\ UNCHANGED rank
              /\ Report(l, NameIf(e.ok /\ e.same, "Lockstep"), [ev |-> e])
         [] OTHER -> UNCHANGED rank

TraceSpec == Init /\ [][Step]_vars
=============================================================================
