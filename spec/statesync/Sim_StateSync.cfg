SPECIFICATION SimSpec
CONSTANTS
  Node <- N7
  Root = "r"
  Child <- C7
  NHeaders = 3
  NBlocks = 2
  MaxRestarts = 4
  BugPoolKeptOnRestart = FALSE
  Depth = 22
INVARIANT Emit
CHECK_DEADLOCK FALSE
