\* named deviation HashSkipsField: must be refuted
SPECIFICATION Spec
CONSTANTS
  Kinds = {"tx", "block", "header", "stateroot", "extensible", "consensus", "notaryreq", "aer", "nef", "manifest", "contract", "mptnode", "rule", "item"}
  K = 3
  Dev = {"HashSkipsField"}
  Quirks = {}
  Origins = {"canon", "nc-signed", "nc-unsigned"}
  Mode = "mc"
INVARIANTS TypeOK PathIndependent SizeExact NoRefusal Confluent
CHECK_DEADLOCK FALSE
