\* the code as it is, non-canonical origins: SizeExact (and NoRefusal through JSON) must be REFUTED
SPECIFICATION Spec
CONSTANTS
  Kinds = {"tx", "block", "header", "stateroot", "extensible", "consensus", "notaryreq", "aer", "nef", "manifest", "contract", "mptnode", "rule", "signer", "item"}
  K = 3
  Dev = {}
  Quirks = {"SizeOfReceived"}
  Origins = {"canon", "nc-signed", "nc-unsigned"}
  Mode = "mc"
INVARIANTS PathIndependent SizeExact NoRefusal Confluent
CHECK_DEADLOCK FALSE
