\* generator: every path of length <= K (K+1 for kinds with at most five transports), with the Impl level's prediction
SPECIFICATION Spec
CONSTANTS
  Kinds = {"tx", "block", "header", "stateroot", "extensible", "consensus", "notaryreq", "aer", "nef", "manifest", "contract", "mptnode", "rule", "signer", "item"}
  K = 3
  Dev = {}
  Quirks = {"JsonLosesArgs"}
  Origins = {"canon", "nc-signed", "nc-unsigned"}
  Mode = "enum"
INVARIANTS Emit
CHECK_DEADLOCK FALSE
