\* the design: no deviation, no quirk; every origin form; two objects of one origin on independent paths
SPECIFICATION Spec
CONSTANTS
  Kinds = {"tx", "block", "header", "stateroot", "extensible", "consensus", "notaryreq", "aer", "nef", "manifest", "contract", "mptnode", "rule", "signer", "item"}
  K = 4
  Dev = {}
  Quirks = {}
  Origins = {"canon", "nc-signed", "nc-unsigned"}
  Mode = "mc"
INVARIANTS TypeOK PathIndependent SizeExact NoRefusal Confluent
CHECK_DEADLOCK FALSE
