\* named deviation SizeOfReceived (the code before its repair): must be refuted by the abstract invariants
SPECIFICATION Spec
CONSTANTS
  Kinds = {"tx", "block", "header", "stateroot", "extensible", "consensus", "notaryreq", "aer", "nef", "manifest", "contract", "mptnode", "rule", "signer", "item"}
  K = 3
  Dev = {"SizeOfReceived"}
  Quirks = {}
  Origins = {"canon", "nc-signed", "nc-unsigned"}
  Mode = "mc"
INVARIANTS PathIndependent SizeExact NoRefusal Confluent
CHECK_DEADLOCK FALSE
