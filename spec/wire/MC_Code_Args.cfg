\* the code as it is: the JSON form of a recorded invocation does not lead back to its binary form: PathIndependent must be REFUTED
SPECIFICATION Spec
CONSTANTS
  Kinds = {"tx", "block", "header", "stateroot", "extensible", "consensus", "notaryreq", "aer", "nef", "manifest", "contract", "mptnode", "rule", "signer", "item"}
  K = 3
  Dev = {}
  Quirks = {"JsonLosesArgs"}
  Origins = {"canon"}
  Mode = "mc"
INVARIANTS PathIndependent SizeExact NoRefusal Confluent
CHECK_DEADLOCK FALSE
