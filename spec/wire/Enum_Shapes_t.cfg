\* thorough: condition trees of 5 levels, stack item trees of 4 levels
SPECIFICATION Spec
CONSTANTS
  Spaces = {"cond", "signer", "attrs", "item", "manifest", "nef"}
  CondDepth = 4
  ItemDepth = 3
  MutFields = 1
  JMutNodes = 1
  Tags = {}
INVARIANTS Laws Emit
CHECK_DEADLOCK FALSE
