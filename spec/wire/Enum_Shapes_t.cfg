\* thorough: condition trees of 4 levels and stack item trees of 3 levels with more kinds of siblings
SPECIFICATION Spec
CONSTANTS
  Spaces = {"cond", "signer", "attrs", "item", "manifest", "nef"}
  CondDepth = 3
  ItemDepth = 2
  CSibs = {"BoolT", "CalledByEntry", "Group"}
  ISibs = {"Any", "Int", "Bytes", "Buffer"}
  MutFields = 1
  JMutNodes = 1
  Tags = {}
INVARIANTS Laws Emit
CHECK_DEADLOCK FALSE
