\* quick: condition trees of 4 levels (one beyond the limit), stack item trees of 3 levels
SPECIFICATION Spec
CONSTANTS
  Spaces = {"cond", "signer", "attrs", "item", "manifest", "nef"}
  CondDepth = 3
  ItemDepth = 2
  CSibs = {"BoolT", "Group"}
  ISibs = {"Any", "Bytes"}
  MutFields = 1
  JMutNodes = 1
  Tags = {}
INVARIANTS Laws Emit
CHECK_DEADLOCK FALSE
