\* thorough: byte-level and JSON-level mutation cases
SPECIFICATION Spec
CONSTANTS
  Spaces = {"mut", "jmut"}
  CondDepth = 0
  ItemDepth = 0
  MutFields = 80
  JMutNodes = 80
INVARIANTS Emit
CHECK_DEADLOCK FALSE
