\* thorough: byte-level and JSON-level mutation cases
SPECIFICATION Spec
CONSTANTS
  Spaces = {"mut", "jmut", "formats"}
  CondDepth = 0
  ItemDepth = 0
  CSibs = {}
  ISibs = {}
  MutFields = 60
  JMutNodes = 80
  Tags = {0, 1, 2, 3, 4, 16, 17, 24, 25, 32, 33, 34, 40, 41, 48, 64, 65, 72, 96, 97, 128, 224, 253, 255}
INVARIANTS Emit
CHECK_DEADLOCK FALSE
