------------------------------ MODULE WirePaths ------------------------------
(***************************************************************************)
(* C17, the part that is a state machine: PATH INDEPENDENCE.               *)
(*                                                                         *)
(* An object (transaction, block, header, state root, extensible and       *)
(* consensus payload, notary request, execution result, NEF, manifest,     *)
(* contract state, trie node, witness rule, signer, stack item) enters the *)
(* node as                                                                 *)
(* BYTES and then travels along a PATH: a finite sequence of TRANSPORTS    *)
(*   p2p        network.Message encode / decode (compressed above 1024)    *)
(*   block      body of a block.Block                                      *)
(*   pool       the memory pool keeps the object                           *)
(*   db         dao encode / decode                                        *)
(*   json       the RPC JSON form as rpcclient decodes it                  *)
(*   reenc      io.Serializable EncodeBinary / DecodeBinary                *)
(*   copy       Copy / Clone helpers                                       *)
(*   frombytes  New...FromBytes of the object's own Bytes()                *)
(*   item       stack item form (ToStackItem / FromStackItem), the DB form *)
(*              of manifests, contract states and rules inside the VM      *)
(*   encode     the object is asked for its bytes / JSON and KEPT (what    *)
(*              storing, relaying and answering a request do to the        *)
(*              object that stays in memory)                               *)
(*                                                                         *)
(* ABSTRACT LEVEL (the judge; nothing but what the statement says).        *)
(* A content c has ONE canonical encoding Canon(c); its hash is the digest *)
(* of the signed part of Canon(c), its size is Len(Canon(c)).  Whatever    *)
(* path an object took:                                                    *)
(*   PathIndependent  content, reported hash and canonical bytes are those *)
(*                    of the content that arrived                          *)
(*   SizeExact        reported size = Len(Canon(content))                  *)
(*   NoRefusal        no transport refuses an object another transport     *)
(*                    delivered (encode-then-decode survives)              *)
(*   Confluent        two objects of the same origin that took different   *)
(*                    paths are indistinguishable                          *)
(*                                                                         *)
(* IMPL LEVEL.  The real objects carry MEMO fields (transaction.hash /     *)
(* hashed / size, Header.hash, Extensible.hash, P2PNotaryRequest.hash,     *)
(* BaseNode of trie nodes) that decoders and Hash()/Size() fill.  They are *)
(* explicit state here: obj = [c, mh, ms].  Every decoder of the code is   *)
(* one operator below; named deviations (CONSTANT Dev) are realistic ways  *)
(* to break the memo discipline or a codec, each of which TLC must refute; *)
(* CONSTANT Quirks are behaviours the code HAS (established on the tree).  *)
(***************************************************************************)
EXTENDS Integers, Sequences, FiniteSets, TLC, Json

CONSTANTS Kinds,     \* object kinds explored in this run
          K,         \* maximal path length
          Dev,       \* named deviations switched on
          Quirks,    \* code-as-is behaviours switched on
          Origins,   \* forms of the arriving bytes: "canon", "nc-signed", "nc-unsigned"
          Mode       \* "mc": two objects, no history (exhaustive);  "enum": one object, path recorded and printed

AllDev == {"HashReceivedBytes", "SizeBeforeScripts", "JsonDropsField", "DbTruncatesEvents", "CompressEdge",
           "HashSkipsField", "CopyKeepsMemo", "SizeOfReceived", "EncodeMarksObject"}
AllQuirks == {"JsonLosesArgs"}
ASSUME Dev \subseteq AllDev /\ Quirks \subseteq AllQuirks /\ K \in 1..6 /\ Mode \in {"mc", "enum"}

NoMemo == <<"-">>
NoSize == -1
Threshold == 1024            \* network.CompressionMinSize
WitSize == 7

(* ------------------------------------------------------------------ kinds *)
AllKinds == {"tx", "block", "header", "stateroot", "extensible", "consensus", "notaryreq", "aer", "nef", "manifest",
             "contract", "mptnode", "rule", "signer", "item"}
Transports(k) ==
    CASE k = "tx"         -> {"p2p", "block", "pool", "db", "json", "reenc", "copy", "frombytes"}
      [] k = "block"      -> {"p2p", "db", "json", "reenc"}
      [] k = "header"     -> {"p2p", "block", "db", "json", "reenc"}
      [] k = "stateroot"  -> {"p2p", "db", "json", "reenc"}
      [] k = "extensible" -> {"p2p", "reenc"}
      [] k = "consensus"  -> {"p2p", "reenc"}
      [] k = "notaryreq"  -> {"p2p", "json", "reenc", "copy", "frombytes"}
      [] k = "aer"        -> {"db", "json", "reenc"}
      [] k = "nef"        -> {"db", "json", "reenc", "frombytes"}
      [] k = "manifest"   -> {"db", "json", "item"}
      [] k = "contract"   -> {"db", "json", "item"}
      [] k = "mptnode"    -> {"p2p", "db", "json", "reenc", "copy"}
      [] k = "rule"       -> {"block", "json", "reenc", "copy", "item"}
      [] k = "signer"     -> {"block", "json", "reenc", "copy", "item"}
      [] k = "item"       -> {"db", "json", "reenc", "copy"}
(* kinds with few transports are explored one step deeper *)
KOf(k) == IF Cardinality(Transports(k)) > 5 THEN K ELSE K + 1
AllTransports(k) == Transports(k) \cup {"encode"}
HasHash(k) == k \in {"tx", "block", "header", "stateroot", "extensible", "consensus", "notaryreq", "nef", "mptnode"}
HasSize(k) == k \in {"tx", "block", "mptnode"}
(* kinds whose JSON decoder re-computes the hash and compares it with the declared one *)
JsonChecksHash(k) == k \in {"tx", "block", "header"}
JsonChecksSize(k) == k = "tx"
(* kinds that arrive through a from-bytes constructor which memoises what it was given *)
ArrivesFromBytes(k) == k = "tx"
(* kinds whose encoding has variable-length integers in front of / behind the signed part *)
HasNC(k) == k \in {"tx", "block", "notaryreq", "extensible", "consensus"}

(* ---------------------------------------------------------------- contents *)
(* sig: the signed part; wit: what is carried but not hashed; opt: a field that only some forms carry (NotaryAssisted.NKeys,
   Conflicts.Hash, PrevStateRoot, the arguments of a recorded invocation ...); ev: events / invocations of an execution
   result; zc: size class; mark: a bit of the in-memory object that is no part of any encoding (must stay FALSE) *)
Contents(k) ==
    IF Mode = "enum" THEN {[sig |-> "s", wit |-> "w", opt |-> TRUE, ev |-> e, zc |-> "small", mark |-> FALSE] : e \in IF k = "aer" THEN {0, 2} ELSE {0}}
    ELSE [sig : {"s"}, wit : {"w"}, opt : BOOLEAN, mark : {FALSE},
          ev  : IF k = "aer" THEN {0, 2} ELSE {0},
          zc  : IF "p2p" \in Transports(k) THEN {"small", "edge", "big"} ELSE {"small"}]
Base(zc) == CASE zc = "small" -> 100 [] zc = "edge" -> Threshold [] zc = "big" -> 3000
SizeOf(c) == Base(c.zc) + (IF c.opt THEN 1 ELSE 0) + 3 * c.ev

(* the canonical encoding is injective: it IS the content; a non-canonical encoding of c is two bytes longer *)
Bytes(form, c) == [form |-> form, c |-> c]
Canon(c) == Bytes("canon", c)
LenOf(b) == SizeOf(b.c) + (IF b.form = "canon" THEN 0 ELSE 2)

(* abstract hash: digest of the signed part of the canonical encoding *)
H(c) == <<"H", c.sig, c.opt>>
(* digest of the signed part of received bytes *)
HRaw(b) == IF b.form = "nc-signed" THEN <<"Hraw", b.c.sig, b.c.opt>> ELSE H(b.c)
(* what the code's createHash computes *)
ImplH(c) == IF "HashSkipsField" \in Dev THEN <<"H", c.sig, FALSE>> ELSE H(c)

(* ---------------------------------------------------------------- objects *)
Obj(c, mh, ms) == [c |-> c, mh |-> mh, ms |-> ms]
ReportedHash(o) == IF o.mh = NoMemo THEN ImplH(o.c) ELSE o.mh
ReportedSize(o) == IF o.ms = NoSize THEN SizeOf(o.c) ELSE o.ms
Ok(o) == [ok |-> TRUE, o |-> o]
Refuse(o) == [ok |-> FALSE, o |-> o]

(* transaction.NewTransactionFromBytes / decodeBinaryNoSize(br, buf): memoises the digest of the RECEIVED signed part and
   the length of the received bytes only if they are the canonical encoding (repairs ccb619b and, for the size, the one
   this check led to; deviations HashReceivedBytes and SizeOfReceived are the code before them) *)
DecFromBytes(b) ==
    Obj(b.c,
        IF "HashReceivedBytes" \in Dev THEN HRaw(b)
        ELSE IF b.form = "nc-signed" THEN NoMemo ELSE ImplH(b.c),
        IF "SizeOfReceived" \in Dev THEN LenOf(b) ELSE SizeOf(b.c))
(* DecodeBinary on a reader: createHash over the re-encoding, Size() over the re-encoding *)
DecBinary(b) ==
    Obj(b.c, ImplH(b.c), IF "SizeBeforeScripts" \in Dev THEN SizeOf(b.c) - WitSize ELSE SizeOf(b.c))
Arrive(k, b) == IF ArrivesFromBytes(k) THEN DecFromBytes(b) ELSE DecBinary(b)

(* ------------------------------------------------------------- transports *)
P2P(k, o) ==
    LET b == Canon(o.c)
        z == IF "CompressEdge" \in Dev THEN SizeOf(o.c) >= Threshold ELSE SizeOf(o.c) > Threshold
        \* deviation: the decompressor's length bound is off by one at the threshold
        bad == "CompressEdge" \in Dev /\ z /\ SizeOf(o.c) = Threshold
    IN IF bad THEN Refuse(o) ELSE Ok(IF k = "tx" THEN DecFromBytes(b) ELSE DecBinary(b))
Body(k, o) == Ok(DecBinary(Canon(o.c)))
Pool(k, o) == Ok(Obj(o.c, ReportedHash(o), ReportedSize(o)))            \* Add calls Hash() and Size(): both memoised
DB(k, o) ==
    LET c2 == IF "DbTruncatesEvents" \in Dev /\ o.c.ev > 1 THEN [o.c EXCEPT !.ev = 1] ELSE o.c
    IN Ok(DecBinary(Canon(c2)))
JSON(k, o) ==
    LET doc == [c    |-> IF "JsonDropsField" \in Dev \/ ("JsonLosesArgs" \in Quirks /\ k = "aer" /\ o.c.ev > 0)
                         THEN [o.c EXCEPT !.opt = FALSE] ELSE o.c,
                hash |-> ReportedHash(o), size |-> ReportedSize(o)]
        c2 == doc.c
    IN IF JsonChecksHash(k) /\ ImplH(c2) # doc.hash THEN Refuse(o)
       ELSE IF JsonChecksSize(k) /\ SizeOf(c2) # doc.size THEN Refuse(o)
       ELSE Ok(Obj(c2, IF HasHash(k) THEN ImplH(c2) ELSE NoMemo, IF HasSize(k) THEN SizeOf(c2) ELSE NoSize))
Reenc(k, o) == Ok(DecBinary(Canon(o.c)))
(* Copy resets the memo fields (transaction.Copy: hashed = false, size = 0); the deviation keeps them while the caller
   goes on to change the copy - modelled as a copy whose memo belongs to another content *)
Copy(k, o) == Ok(IF "CopyKeepsMemo" \in Dev THEN Obj(o.c, <<"H", "stale">>, o.ms) ELSE Obj(o.c, NoMemo, NoSize))
FromBytes(k, o) == Ok(DecFromBytes(Canon(o.c)))
Item(k, o) == Ok(Obj(o.c, NoMemo, NoSize))
(* deviation EncodeMarksObject (the code before its repair): AppExecResult.EncodeBinaryWithContext set the "invocations
   saved" bit in the VMState of the object it encoded, and core.Blockchain compared that VMState with HALT afterwards *)
Encode(k, o) == Ok(IF "EncodeMarksObject" \in Dev /\ k = "aer" /\ o.c.ev > 0 THEN [o EXCEPT !.c.mark = TRUE]
                   ELSE Obj(o.c, ReportedHash(o), ReportedSize(o)))

Apply(t, k, o) ==
    CASE t = "p2p" -> P2P(k, o) [] t = "block" -> Body(k, o) [] t = "pool" -> Pool(k, o) [] t = "db" -> DB(k, o)
      [] t = "json" -> JSON(k, o) [] t = "reenc" -> Reenc(k, o) [] t = "copy" -> Copy(k, o)
      [] t = "frombytes" -> FromBytes(k, o) [] t = "item" -> Item(k, o) [] t = "encode" -> Encode(k, o)

(* ------------------------------------------------------------------ machine *)
VARIABLES kind, b0, obj, twin, n, m, failed, path
vars == <<kind, b0, obj, twin, n, m, failed, path>>

Init ==
    /\ kind \in Kinds
    /\ b0 \in {Bytes(f, c) : f \in (IF HasNC(kind) THEN Origins ELSE Origins \cap {"canon"}), c \in Contents(kind)}
    /\ obj = Arrive(kind, b0) /\ twin = Arrive(kind, b0)
    /\ n = 0 /\ m = 0 /\ failed = "none" /\ path = <<>>

Move(t) ==
    /\ n < KOf(kind) /\ failed = "none"
    /\ LET r == Apply(t, kind, obj) IN
         /\ obj' = r.o
         /\ failed' = (IF r.ok THEN "none" ELSE t)
    /\ n' = n + 1
    /\ path' = (IF Mode = "enum" THEN Append(path, t) ELSE path)
    /\ UNCHANGED <<kind, b0, twin, m>>
MoveTwin(t) ==
    /\ Mode = "mc" /\ m < KOf(kind) /\ failed = "none"
    /\ LET r == Apply(t, kind, twin) IN
         /\ twin' = r.o
         /\ failed' = (IF r.ok THEN "none" ELSE t)
    /\ m' = m + 1
    /\ UNCHANGED <<kind, b0, obj, n, path>>
Next == \E t \in (IF Mode = "enum" THEN Transports(kind) ELSE AllTransports(kind)) : Move(t) \/ MoveTwin(t)
Spec == Init /\ [][Next]_vars

(* ---------------------------------------------------------- abstract level *)
Seen(o) == [c |-> o.c, h |-> IF HasHash(kind) THEN ReportedHash(o) ELSE NoMemo,
            s |-> IF HasSize(kind) THEN ReportedSize(o) ELSE 0, b |-> Canon(o.c)]
PathIndependentOf(o) == /\ o.c = b0.c
                        /\ HasHash(kind) => ReportedHash(o) = H(b0.c)
SizeExactOf(o) == HasSize(kind) => ReportedSize(o) = SizeOf(o.c)

PathIndependent == PathIndependentOf(obj) /\ PathIndependentOf(twin)
SizeExact == SizeExactOf(obj) /\ SizeExactOf(twin)
NoRefusal == failed = "none"
Confluent == Seen(obj) = Seen(twin)

TypeOK == /\ kind \in AllKinds /\ n \in 0..(K+1) /\ m \in 0..(K+1)
          /\ obj.c \in Contents(kind) /\ twin.c \in Contents(kind)

(* ------------------------------------------------------- printing (enum) *)
(* one case per path: what the Impl level predicts the driver will observe at its end *)
Emit ==
    Mode = "enum" /\ n > 0 =>
      PrintT(<<"@@CASE@@", ToJson([kind |-> kind, origin |-> b0.form, opt |-> b0.c.opt, ev |-> b0.c.ev, zc |-> b0.c.zc,
                                   path |-> path, refused |-> failed # "none",
                                   hashok |-> PathIndependentOf(obj), sizeok |-> SizeExactOf(obj)])>>)
=============================================================================
