\* the code as it is (size := length of the received bytes), canonical origins only
SPECIFICATION Spec
CONSTANTS
  Kinds = {"tx", "block", "header", "stateroot", "extensible", "consensus", "notaryreq", "aer", "nef", "manifest", "contract", "mptnode", "rule", "signer", "item"}
  K = 3
  Dev = {}
  Quirks = {"SizeOfReceived"}
  Origins = {"canon"}
  Mode = "mc"
INVARIANTS TypeOK PathIndependent SizeExact NoRefusal Confluent
CHECK_DEADLOCK FALSE
