\* the code as it is: encoding an execution result with recorded invocations marks the object that stays in memory: PathIndependent must be REFUTED
SPECIFICATION Spec
CONSTANTS
  Kinds = {"tx", "block", "header", "stateroot", "extensible", "consensus", "notaryreq", "aer", "nef", "manifest", "contract", "mptnode", "rule", "signer", "item"}
  K = 3
  Dev = {}
  Quirks = {"EncodeMarksObject"}
  Origins = {"canon"}
  Mode = "mc"
INVARIANTS PathIndependent SizeExact NoRefusal Confluent
CHECK_DEADLOCK FALSE
