\* quick: byte-level and JSON-level mutation cases
SPECIFICATION Spec
CONSTANTS
  Spaces = {"mut", "jmut"}
  CondDepth = 0
  ItemDepth = 0
  MutFields = 24
  JMutNodes = 24
INVARIANTS Emit
CHECK_DEADLOCK FALSE
