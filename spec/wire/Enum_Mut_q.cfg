\* quick: byte-level and JSON-level mutation cases
SPECIFICATION Spec
CONSTANTS
  Spaces = {"mut", "jmut", "formats"}
  CondDepth = 0
  ItemDepth = 0
  CSibs = {}
  ISibs = {}
  MutFields = 16
  JMutNodes = 24
  Tags = {0, 1, 2, 3, 4, 17, 33, 40, 64, 72, 128, 224, 255}
INVARIANTS Emit
CHECK_DEADLOCK FALSE
