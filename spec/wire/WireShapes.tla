------------------------------ MODULE WireShapes ------------------------------
(***************************************************************************)
(* C17, the part that is an ENUMERATION: structured value spaces and       *)
(* structured mutations.  TLC enumerates constructor trees (shapes) up to  *)
(* a depth / breadth bound; the driver instantiates every shape with real  *)
(* values of the real types and judges, per shape, the laws of the         *)
(* statement (WireTrace.tla): binary round trip, JSON round trip,          *)
(* binary -> JSON -> binary, size law; for shapes outside the documented   *)
(* limits: the decoder refuses (no panic) and the binary and the JSON      *)
(* decoder AGREE.  Legal(...) below is the documented limit of each space  *)
(* as a predicate on shapes; it is printed with the case.  What it says is *)
(* compared with the code as DRIFT only - the verdict is agreement of the  *)
(* two real decoders and the round-trip laws.                              *)
(*                                                                         *)
(* Spaces                                                                  *)
(*   cond      witness condition trees (Boolean, Not, And, Or, ScriptHash, *)
(*             Group, CalledByEntry, CalledByContract, CalledByGroup) to   *)
(*             one level beyond the nesting limit; breadth 0, 1, 2, 16, 17 *)
(*   signer    scope bit sets (all 32 combinations of the five scopes, and *)
(*             unknown bits) x lengths 0, 1, 16, 17 of the three lists x   *)
(*             lists present without their scope                           *)
(*   attrs     attribute lists of length <= 3 over all attribute kinds     *)
(*             (duplicates allowed / forbidden per kind), totals 16 / 17   *)
(*   item      stack item trees over all eleven kinds; empty, shared,      *)
(*             recursive, maximal count / size / depth, maps with mixed,   *)
(*             equal and invalid keys                                      *)
(*   manifest  groups, permissions, ABI, trusts, standards, features       *)
(*   nef       compiler / source / tokens / script / checksum limits       *)
(*   mut       byte-level mutation (operator x field ordinal), for every   *)
(*             format of Formats                                           *)
(*   jmut      JSON-level mutation (operator x node ordinal), for every    *)
(*             format of JFormats                                          *)
(***************************************************************************)
EXTENDS Integers, Sequences, FiniteSets, TLC, Json

CONSTANTS Spaces,     \* which spaces this run enumerates
          CondDepth,  \* deepest condition tree has CondDepth + 1 levels
          ItemDepth,  \* deepest stack item tree has ItemDepth + 1 levels
          CSibs,      \* leaf conditions used as siblings of a deep sub-tree
          ISibs,      \* leaf items used as siblings of a deep sub-tree
          MutFields,  \* field ordinals 0..MutFields-1 from the head and from the tail
          Tags,       \* byte values written over one-byte fields (type tags, flags, enumerations)
          JMutNodes   \* JSON node ordinals 0..JMutNodes-1

MaxNesting == 3        \* transaction.MaxConditionNesting: levels of a condition tree
MaxSub == 16           \* maxSubitems: sub-conditions, allowed contracts / groups, rules
MaxAttrs == 16         \* transaction.MaxAttributes: signers + attributes

Max(a, b) == IF a > b THEN a ELSE b
RECURSIVE SeqMax(_)
SeqMax(s) == IF s = <<>> THEN 0 ELSE Max(Head(s), SeqMax(Tail(s)))

(* ================================================================ conditions *)
(* [t, cs, rep]: rep > 0 means "rep copies of cs[1]"; rep = -1 means no children at all (an empty And / Or) *)
Leaf(t) == [t |-> t, cs |-> <<>>, rep |-> 0]
CLeaves == {Leaf(t) : t \in {"BoolT", "BoolF", "ScriptHash", "Group", "CalledByEntry", "CalledByContract", "CalledByGroup"}}
CSib == {Leaf(t) : t \in CSibs}
CNode(t, cs) == [t |-> t, cs |-> cs, rep |-> 0]
RECURSIVE CT(_)
CT(d) ==
    IF d = 0 THEN CLeaves
    ELSE CLeaves
         \cup {CNode("Not", <<x>>) : x \in CT(d-1)}
         \cup UNION {{CNode(op, <<x>>) : x \in CT(d-1)}
                     \cup {CNode(op, <<x, l>>) : x \in CT(d-1), l \in CSib}
                     \cup {CNode(op, <<l, x>>) : x \in CT(d-1), l \in CSib} : op \in {"And", "Or"}}
CBreadth == {[t |-> op, cs |-> <<l>>, rep |-> r] : op \in {"And", "Or"}, l \in {Leaf("BoolT"), Leaf("ScriptHash")}, r \in {16, 17}}
            \cup {[t |-> op, cs |-> <<>>, rep |-> -1] : op \in {"And", "Or"}}
            \* the widest tree inside the nesting limit, and one level too many under a full node
            \cup {[t |-> "And", cs |-> <<[t |-> "Or", cs |-> <<l>>, rep |-> 16]>>, rep |-> 16] : l \in {Leaf("BoolT")}}
            \cup {[t |-> "And", cs |-> <<[t |-> "Or", cs |-> <<CNode("Not", <<l>>)>>, rep |-> 2]>>, rep |-> 2] : l \in {Leaf("BoolT")}}

RECURSIVE CLevels(_), CWidthOK(_)
CLevels(c) == IF c.cs = <<>> THEN 1 ELSE 1 + SeqMax([i \in 1..Len(c.cs) |-> CLevels(c.cs[i])])
CWidth(c) == IF c.rep > 0 THEN c.rep ELSE Len(c.cs)
CWidthOK(c) == /\ c.t \in {"And", "Or"} => CWidth(c) \in 1..MaxSub
               /\ \A i \in 1..Len(c.cs) : CWidthOK(c.cs[i])
CondLegal(c) == CLevels(c) <= MaxNesting /\ CWidthOK(c)
Conds == CT(CondDepth) \cup CBreadth

(* sub-trees of a legal tree are legal (the limit is monotone): checked by TLC on every enumerated tree *)
CondLaw(c) == CondLegal(c) => \A i \in 1..Len(c.cs) : CondLegal(c.cs[i])

(* =================================================================== signers *)
ScopeBits == {1, 16, 32, 64, 128}          \* CalledByEntry CustomContracts CustomGroups Rules Global
RECURSIVE SumSet(_)
SumSet(S) == IF S = {} THEN 0 ELSE LET x == CHOOSE x \in S : TRUE IN x + SumSet(S \ {x})
Lens == {0, 1, 16, 17}
(* nc / ng / nr: lengths of the three lists AS GIVEN TO THE ENCODER (a list whose scope bit is absent is a "ghost": only
   the JSON form can carry it); -1 = list absent *)
Signers ==
    UNION {{[scopes |-> SumSet(S), nc |-> nc, ng |-> ng, nr |-> nr, dup |-> FALSE] :
              nc \in (IF 16 \in S THEN Lens ELSE {-1}), ng \in (IF 32 \in S THEN Lens ELSE {-1}),
              nr \in (IF 64 \in S THEN Lens ELSE {-1})} : S \in SUBSET ScopeBits}
    \cup {[scopes |-> s, nc |-> -1, ng |-> -1, nr |-> -1, dup |-> FALSE] : s \in {2, 4, 8, 3, 129 + 2}}     \* unknown bits
    \cup {[scopes |-> s, nc |-> 1, ng |-> 1, nr |-> 1, dup |-> FALSE] : s \in {0, 1}}                     \* ghost lists
    \cup {[scopes |-> 16 + 32, nc |-> 2, ng |-> 2, nr |-> -1, dup |-> TRUE]}                              \* equal entries
HasBit(s, b) == (s \div b) % 2 = 1
SignerLegal(s) ==
    /\ s.scopes \in 0..255 /\ ~HasBit(s.scopes, 2) /\ ~HasBit(s.scopes, 4) /\ ~HasBit(s.scopes, 8)
    /\ HasBit(s.scopes, 128) => s.scopes = 128
    /\ HasBit(s.scopes, 16) => s.nc <= MaxSub
    /\ HasBit(s.scopes, 32) => s.ng <= MaxSub
    /\ HasBit(s.scopes, 64) => s.nr <= MaxSub

(* ================================================================ attributes *)
AttrKinds == {"HighPriority", "OracleOK", "OracleFail", "OracleFailData", "OracleBadCode", "NotValidBefore", "Conflicts",
              "NotaryAssisted", "Reserved", "Unknown"}
AttrSeqs == {<<>>} \cup {<<a>> : a \in AttrKinds} \cup {<<a, b>> : a, b \in AttrKinds}
            \cup {<<a, b, c>> : a, b, c \in {"HighPriority", "OracleOK", "NotValidBefore", "Conflicts", "NotaryAssisted"}}
AttrType(a) == IF a \in {"OracleOK", "OracleFail", "OracleFailData", "OracleBadCode"} THEN "Oracle" ELSE a
(* nsig signers, the listed attributes, then `fill` more Conflicts attributes *)
AttrCases == {[attrs |-> s, nsig |-> 1, fill |-> 0] : s \in AttrSeqs}
             \cup {[attrs |-> <<>>, nsig |-> n, fill |-> f] : n \in {1, 2, 16, 17}, f \in {0, 14, 15, 16}}
AttrLegal(c) ==
    /\ \A i \in 1..Len(c.attrs) : c.attrs[i] \notin {"OracleFailData", "OracleBadCode", "Unknown"}
    /\ \A i, j \in 1..Len(c.attrs) : i < j /\ AttrType(c.attrs[i]) = AttrType(c.attrs[j]) => c.attrs[i] = "Conflicts"
    /\ c.nsig \in 1..MaxAttrs
    /\ c.nsig + Len(c.attrs) + c.fill <= MaxAttrs

(* =============================================================== stack items *)
(* [t, n, sub]: n is a value / length class; sub the children (for Map: key, value, key, value, ...) *)
It(t, n) == [t |-> t, n |-> n, sub |-> <<>>]
ILeaves == {It("Any", 0), It("Bool", 0), It("Bool", 1), It("Int", 0), It("Int", 1), It("Int", 2), It("Int", 3), It("Int", 4),
            It("Bytes", 0), It("Bytes", 1), It("Bytes", 64), It("Buffer", 0), It("Buffer", 1), It("Interop", 0), It("Pointer", 7)}
ISib == {x \in ILeaves : x.t \in ISibs /\ x.n \in {0, 1}}
IKeys == {It("Bool", 1), It("Int", 1), It("Bytes", 1)}
INode(t, sub) == [t |-> t, n |-> 0, sub |-> sub]
RECURSIVE IT(_)
IT(d) ==
    IF d = 0 THEN ILeaves
    ELSE ILeaves
         \cup UNION {{INode(op, <<>>)} \cup {INode(op, <<x>>) : x \in IT(d-1)}
                     \cup {INode(op, <<x, l>>) : x \in IT(d-1), l \in ISib}
                     \cup {INode(op, <<l, x>>) : x \in IT(d-1), l \in ISib} : op \in {"Array", "Struct"}}
         \cup {INode("Map", <<>>)} \cup {INode("Map", <<k, x>>) : k \in IKeys, x \in IT(d-1)}
(* special shapes, named: the driver knows how to build them *)
ISpecial == {[t |-> "Special", n |-> 0, sub |-> <<>>, name |-> s] :
               s \in {"count-2047", "count-2048", "count-2049", "map-1023", "map-1024", "size-max", "size-over", "shared", "shared-deep",
                      "recursive", "recursive-map", "map-mixed-keys", "map-equal-keys", "map-key-64", "map-key-65", "map-key-array",
                      "map-key-null", "map-key-buffer", "chain-9", "chain-10", "chain-11", "chain-64", "int-32-bytes", "int-max", "int-min",
                      "bytes-65535", "bytes-65536", "struct-in-map-in-array", "all-kinds"}}
RECURSIVE ICount(_), IHas(_, _)
ICount(x) == 1 + (IF x.sub = <<>> THEN 0 ELSE LET f[i \in 0..Len(x.sub)] == IF i = 0 THEN 0 ELSE f[i-1] + ICount(x.sub[i]) IN f[Len(x.sub)])
IHas(x, t) == x.t = t \/ \E i \in 1..Len(x.sub) : IHas(x.sub[i], t)
(* serialisable by the strict serialiser: no interop / pointer; every enumerated tree is small *)
ItemStrict(x) == ~IHas(x, "Interop") /\ ~IHas(x, "Pointer")
Items == {[t |-> x.t, n |-> x.n, sub |-> x.sub, name |-> ""] : x \in IT(ItemDepth)} \cup ISpecial
ItemLaw(x) == x.t # "Special" => ICount(x) <= 2048

(* ================================================================== manifest *)
ManifestCases ==
    {[name |-> nm, groups |-> g, perms |-> p, methods |-> m, events |-> e, trusts |-> t, stds |-> s, features |-> f, extra |-> x] :
        nm \in {"ok"}, g \in {"none"}, p \in {"wild"}, m \in {"one"}, e \in {"none"}, t \in {"none"}, s \in {"none"}, f \in {"empty"}, x \in {"null"}}
    \cup {[name |-> nm, groups |-> "none", perms |-> "wild", methods |-> "one", events |-> "none", trusts |-> "none", stds |-> "none",
           features |-> "empty", extra |-> "null"] : nm \in {"empty", "long", "unicode"}}
    \cup {[name |-> "ok", groups |-> g, perms |-> "wild", methods |-> "one", events |-> "none", trusts |-> "none", stds |-> "none",
           features |-> "empty", extra |-> "null"] : g \in {"one", "two", "dup", "badsig"}}
    \cup {[name |-> "ok", groups |-> "none", perms |-> p, methods |-> "one", events |-> "none", trusts |-> "none", stds |-> "none",
           features |-> "empty", extra |-> "null"] :
           p \in {"none", "hash", "group", "hash-methods", "wild-methods", "dup-contract", "dup-method", "empty-method", "two", "hash-zero"}}
    \cup {[name |-> "ok", groups |-> "none", perms |-> "wild", methods |-> m, events |-> "none", trusts |-> "none", stds |-> "none",
           features |-> "empty", extra |-> "null"] :
           m \in {"none", "two", "dup", "overload", "noname", "negoffset", "params", "dup-param", "void-param", "safe", "all-types", "bad-rettype"}}
    \cup {[name |-> "ok", groups |-> "none", perms |-> "wild", methods |-> "one", events |-> e, trusts |-> "none", stds |-> "none",
           features |-> "empty", extra |-> "null"] : e \in {"one", "two", "dup", "noname", "params", "dup-param"}}
    \cup {[name |-> "ok", groups |-> "none", perms |-> "wild", methods |-> "one", events |-> "none", trusts |-> t, stds |-> "none",
           features |-> "empty", extra |-> "null"] : t \in {"wild", "hash", "group", "two", "dup", "null"}}
    \cup {[name |-> "ok", groups |-> "none", perms |-> "wild", methods |-> "one", events |-> "none", trusts |-> "none", stds |-> s,
           features |-> "empty", extra |-> "null"] : s \in {"one", "two", "dup", "empty-name"}}
    \cup {[name |-> "ok", groups |-> "none", perms |-> "wild", methods |-> "one", events |-> "none", trusts |-> "none", stds |-> "none",
           features |-> f, extra |-> x] : f \in {"empty", "spaced", "nonempty", "null"},
           x \in {"null", "object", "indented", "nested", "number", "bignumber", "string", "dupkeys", "array"}}
ManifestLegal(c) ==
    /\ c.name # "empty" /\ c.groups \notin {"dup", "badsig"}
    /\ c.perms \notin {"dup-contract", "dup-method", "empty-method"}
    /\ c.methods \notin {"none", "dup", "noname", "negoffset", "dup-param", "void-param", "bad-rettype"}
    /\ c.events \notin {"dup", "noname", "dup-param"}
    /\ c.trusts \notin {"dup", "null"} /\ c.stds \notin {"dup", "empty-name"}
    /\ c.features \in {"empty", "spaced"}

(* ======================================================================= nef *)
NefCases ==
    {[compiler |-> c, source |-> s, tokens |-> t, script |-> sc, checksum |-> ck, magic |-> mg, reserved |-> r] :
        c \in {"short"}, s \in {"empty"}, t \in {"none"}, sc \in {"small"}, ck \in {"ok"}, mg \in {"ok"}, r \in {"zero"}}
    \cup {[compiler |-> c, source |-> "empty", tokens |-> "none", script |-> "small", checksum |-> "ok", magic |-> "ok", reserved |-> "zero"] :
            c \in {"empty", "len-64", "len-65", "inner-zero"}}
    \cup {[compiler |-> "short", source |-> s, tokens |-> "none", script |-> "small", checksum |-> "ok", magic |-> "ok", reserved |-> "zero"] :
            s \in {"url", "len-256", "len-257"}}
    \cup {[compiler |-> "short", source |-> "empty", tokens |-> t, script |-> "small", checksum |-> "ok", magic |-> "ok", reserved |-> "zero"] :
            t \in {"one", "two", "len-128", "len-129", "underscore", "name-32", "name-33", "flags-all", "flags-bad", "dup", "params-max"}}
    \cup {[compiler |-> "short", source |-> "empty", tokens |-> "none", script |-> sc, checksum |-> "ok", magic |-> "ok", reserved |-> "zero"] :
            sc \in {"empty", "one", "len-65535", "len-max", "len-over"}}
    \cup {[compiler |-> "short", source |-> "empty", tokens |-> "one", script |-> "small", checksum |-> ck, magic |-> mg, reserved |-> r] :
            ck \in {"ok", "wrong"}, mg \in {"ok", "wrong"}, r \in {"zero", "first", "second"}}
NefLegal(c) ==
    /\ c.compiler # "len-65" /\ c.source # "len-257"
    /\ c.tokens \notin {"len-129", "underscore", "name-33", "flags-bad"}
    /\ c.script \notin {"empty", "len-over"}
    /\ c.checksum = "ok" /\ c.magic = "ok" /\ c.reserved = "zero"

(* ================================================================= mutations *)
(* binary formats with a decoder from bytes *)
Formats == {"tx", "tx-frombytes", "block", "block-sr", "header", "header-sr", "witness", "signer", "rule", "attr", "message-tx",
            "message-block", "message-headers", "message-ext", "message-notary", "message-inv", "message-version", "message-addr",
            "message-ping", "message-getblocks", "message-getblockbyindex", "message-merkleblock", "message-mptdata", "message-mptinv",
            "extensible", "consensus-changeview", "consensus-preparerequest", "consensus-prepareresponse", "consensus-commit",
            "consensus-recoveryrequest", "consensus-recoverymessage", "notaryreq", "stateroot", "stateroot-msg", "mptnode", "mptproof",
            "nef", "item", "item-protected", "aer", "notification", "contract", "trimmed-block"}
PosOps == {"nc-fd", "nc-fe", "nc-ff", "len-inc", "len-dec", "trunc", "trunc-mid", "dup-field", "dup-span", "fill-00", "fill-ff", "drop-field",
           "cnt-17", "cnt-256", "cnt-64k", "cnt-64k1", "cnt-16m", "cnt-16m1", "cnt-2g", "cnt-max"}
(* a case is (operator, anchor, ordinal[, tag]); the driver applies it to EVERY format of Formats that has the field *)
MutCases ==
    {[fmts |-> "binary", op |-> o, anchor |-> a, k |-> k, tag |-> 0] : o \in PosOps, a \in {"head", "tail"}, k \in 0..(MutFields-1)}
    \cup {[fmts |-> "binary", op |-> "tag", anchor |-> a, k |-> k, tag |-> t] : a \in {"head", "tail"}, k \in 0..(MutFields-1), t \in Tags}
    \cup {[fmts |-> "binary", op |-> "trail", anchor |-> "tail", k |-> k, tag |-> t] : k \in {1, 2, 9}, t \in {0, 1, 255}}
    \* anchor "small": the k-th one-byte field holding a small value (counts, lengths, tags, flags), wherever it lies
    \cup {[fmts |-> "binary", op |-> o, anchor |-> "small", k |-> k, tag |-> 0] : k \in 0..(2 * MutFields - 1),
            o \in {"nc-fd", "len-inc", "len-dec", "cnt-17", "cnt-256", "cnt-64k1", "cnt-16m", "cnt-max", "dup-span"}}
    \cup {[fmts |-> "binary", op |-> "tag", anchor |-> "small", k |-> k, tag |-> t] : k \in 0..(2 * MutFields - 1), t \in Tags}

JFormats == {"tx", "block", "header", "signer", "rule", "attr", "witness", "stateroot", "notaryreq", "aer", "applog", "notification",
             "nef", "manifest", "contract", "item", "item-plain", "mptnode"}
JOps == {"drop", "null", "dup-elem", "drop-elem", "to-number", "to-string", "to-bool", "to-array", "to-object", "big-number", "negative",
         "fraction", "deep", "long-string", "bogus-enum", "empty-string", "bad-base64", "bad-hex", "dup-key"}
JMutCases == {[fmts |-> "json", op |-> o, anchor |-> "head", k |-> k, tag |-> 0] : o \in JOps, k \in 0..(JMutNodes-1)}
FormatLists == {[fmts |-> "list", binary |-> Formats, json |-> JFormats]}

(* ==================================================================== machine *)
VARIABLES space, c
vars == <<space, c>>
Init ==
    /\ space \in Spaces
    /\ c \in CASE space = "cond" -> Conds [] space = "signer" -> Signers [] space = "attrs" -> AttrCases
             [] space = "item" -> Items [] space = "manifest" -> ManifestCases [] space = "nef" -> NefCases
             [] space = "mut" -> MutCases [] space = "jmut" -> JMutCases [] space = "formats" -> FormatLists
Next == FALSE /\ UNCHANGED vars
Spec == Init /\ [][Next]_vars

Legal == CASE space = "cond" -> CondLegal(c) [] space = "signer" -> SignerLegal(c) [] space = "attrs" -> AttrLegal(c)
           [] space = "item" -> TRUE [] space = "manifest" -> ManifestLegal(c)
           [] space = "nef" -> NefLegal(c) [] OTHER -> TRUE
Laws == /\ space = "cond" => CondLaw(c)
        /\ space = "item" => ItemLaw(c)
        /\ space = "signer" => (SignerLegal(c) /\ c.scopes >= 128 => c.nc = -1 /\ c.ng = -1 /\ c.nr = -1)
(* strict: the strict serialiser (contract storage, notifications) takes the item; every enumerated tree is taken by the
   protected one (execution results) *)
Strict == IF space = "item" /\ c.t # "Special" THEN ItemStrict(c) ELSE TRUE
Emit == PrintT(<<"@@CASE@@", ToJson([space |-> space, legal |-> Legal, strict |-> Strict, c |-> c])>>)
=============================================================================
