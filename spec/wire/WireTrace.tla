------------------------------ MODULE WireTrace ------------------------------
(***************************************************************************)
(* The judge of C17's bound part: what the REAL codecs did (code -> spec), *)
(* one NDJSON line per hop / shape / mutation (harness/c17wire), judged by  *)
(* the abstract predicates of WirePaths.tla (path independence) and by the  *)
(* laws of the statement on shapes and mutated encodings.  Total and        *)
(* reporting (spec/common/TraceIO.tla): every line is consumed, every       *)
(* falsified predicate is named.                                            *)
(*                                                                         *)
(*  hop    kind, tr (last transport of `path`; "arrive" = the arrival       *)
(*         itself; "chaindb" = what a real ledger returns), origin,         *)
(*         h0 b0   hash and digest of the canonical bytes EXPECTED for the  *)
(*                 content (the harness applies the definition of the hash  *)
(*                 to the canonical bytes; "" = the kind has no hash),      *)
(*         ha ba len sizes   what the object REPORTS after the hop: hash,   *)
(*                 digest and length of its canonical bytes, every size it  *)
(*                 reports (Size(), GetVarSize, GetExpectedBlockSize ...),  *)
(*         eq      exported content equal to the arrived object's,          *)
(*         mh mb meq   the same observations of the FIRST object of this    *)
(*                 value that arrived through the same last transport by    *)
(*                 another path,                                            *)
(*         err     the transport refused the object ("" = delivered),       *)
(*         panic   a panic escaped the code under test                      *)
(*  shape  space, kind; stages benc bdec jenc jdec xdec idec jbin in        *)
(*         {"ok","err","panic","na"}: binary encode / decode, JSON encode / *)
(*         decode, binary -> JSON -> binary, stack item form, the value the *)
(*         JSON decoder accepted put through the binary form; bsame bsize   *)
(*         jsame xsame isame: same bytes / hash / sizes after the trip      *)
(*  mut    fmt, json, op, inlen; out in {"error","value","panic","hang",    *)
(*         "memory","crash"}; reenc redec (stages), fix (the re-encoding is *)
(*         a fixpoint), identeq (same hash and sizes), tobin, ms, allocmb   *)
(*                                                                         *)
(* Names starting with "drift:" compare with what the specification's      *)
(* limits say (WireShapes!Legal) and are not verdicts.                      *)
(***************************************************************************)
EXTENDS TraceIO, FiniteSets

VARIABLE l
Init == l = 1

AllEq(s, n) == \A i \in 1..Len(s) : s[i] = n
Delivered(e) == e.err = "" /\ ~e.panic

(* ---- WirePaths: the four abstract predicates on one observed hop *)
HopChecks(e) ==
    NameIf(~e.panic, "panic")
    \cup NameIf(e.panic \/ e.err = "", "RoundTrip")
    \cup (IF Delivered(e)
          THEN NameIf((e.h0 = "" \/ e.ha = e.h0) /\ e.ba = e.b0 /\ e.eq, "PathIndependent")
               \cup NameIf(AllEq(e.sizes, e.len), "SizeExact")
               \cup NameIf(e.ha = e.mh /\ e.ba = e.mb /\ e.meq, "Confluent")
          ELSE {})

Stages(e) == {e.benc, e.bdec, e.jenc, e.jdec, e.xdec, e.idec, e.jbin}
ShapeChecks(e) ==
    NameIf("panic" \notin Stages(e), "panic")
    \cup NameIf(e.bdec = "ok" => e.bsame, "RoundTrip/binary")
    \cup NameIf(e.bdec = "ok" => e.bsize, "SizeExact")
    \cup NameIf(e.jdec = "ok" => e.jsame, "RoundTrip/json")
    \* a value the binary decoder delivers has a JSON form that leads back to it
    \cup NameIf(e.bdec = "ok" /\ e.jenc # "na" => e.xdec = "ok" /\ e.xsame, "RoundTrip/binary-json-binary")
    \cup NameIf(e.bdec = "ok" /\ e.idec = "ok" => e.isame, "RoundTrip/item")
    \* a value the JSON decoder delivers exists in the binary form
    \cup NameIf(e.jdec = "ok" => e.jbin \in {"ok", "panic"}, "JsonBinaryAgree")
    \* a value inside the documented limits of the protocol (WireShapes!Legal) that the encoder writes is a value: it is decoded
    \cup NameIf(e.legal /\ e.benc = "ok" => e.bdec = "ok", "RoundTrip/value-inside-the-limits-refused")
    \cup NameIf(e.benc = "ok" /\ e.bdec = "ok" => e.legal, "drift:AcceptsOutsideTheLimits")
    \cup NameIf(e.bdec = "ok" /\ e.idec # "na" => e.idec = "ok", "drift:ItemFormRefuses")

Unbounded(e) == e.out \in {"hang", "memory", "crash"} \/ (e.inlen < 1024 /\ e.allocmb > 256)
MutChecks(e) ==
    NameIf(e.out # "panic", "panic")
    \cup NameIf(~Unbounded(e), "unbounded")
    \cup NameIf(e.out = "value" => e.reenc = "ok" /\ e.redec = "ok" /\ e.fix /\ e.identeq, "DecodeLaw")
    \cup NameIf(e.out = "value" /\ e.tobin # "na" => e.tobin = "ok", "JsonBinaryAgree")

Step ==
    /\ l <= Len(TLog)
    /\ l' = l + 1
    /\ LET e == TLog[l] IN
         CASE e.event = "hop"   -> Report(l, HopChecks(e), [kind |-> e.kind, tr |-> e.tr, sig |-> e.sig])
           [] e.event = "shape" -> Report(l, ShapeChecks(e), [kind |-> e.kind, tr |-> e.space, sig |-> e.sig])
           [] e.event = "mut"   -> Report(l, MutChecks(e), [kind |-> e.fmt, tr |-> IF e.json THEN "json" ELSE "binary", sig |-> e.sig])

TraceSpec == Init /\ [][Step]_l
=============================================================================
