------------------------------ MODULE MCPaging ------------------------------
(* Key universes and parameter sets of the exhaustive / enumeration runs of Paging.tla. *)
EXTENDS Paging

\* keys that are prefixes and extensions of each other, 0x00 and 0xff bytes, keys equal to the prefixes <<1>> and <<1,255>>
U8 == << <<0>>, <<1>>, <<1, 0>>, <<1, 255>>, <<1, 255, 0>>, <<1, 255, 255>>, <<2>>, <<255>> >>
U6 == << <<1>>, <<1, 0>>, <<1, 255>>, <<1, 255, 255>>, <<2>>, <<255>> >>
U5 == << <<1>>, <<1, 0>>, <<1, 255>>, <<1, 255, 255>>, <<2>> >>
\* the universe with the EMPTY key (a contract may store one)
UE == << <<>>, <<1>>, <<1, 0>>, <<255>> >>

P3 == { <<>>, <<1>>, <<1, 255>> }
P2 == { <<>>, <<1>> }
K4 == 1..4
C4 == {1, 2, 3, 100}
Both == {"from", "index"}
=============================================================================
