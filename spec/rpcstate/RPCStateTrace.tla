--------------------------- MODULE RPCStateTrace ---------------------------
(***************************************************************************)
(* Trace judge of the RPC view of C03 / the fee clause of C07: every       *)
(* recorded request + decoded response of a real rpcsrv.Server is          *)
(* re-computed from the REFERENCE node's flat storage dump of the height   *)
(* the request names (RPCState.tla).  Total, deterministic, reporting.     *)
(*                                                                         *)
(* events (field `via` = "client" | "raw", `node`, `srv` only label)       *)
(*   init                     a new world (the w-th init opens world w)    *)
(*   ref      w h flat live root      reference data of height h (in order)*)
(*   root        getstateroot by index / block hash                        *)
(*   stateheight getstateheight                                            *)
(*   getstate    findstates  proof  forged  getstorage  findstorage        *)
(*   paging      a finished walk (either protocol, live or through a root) *)
(*   historic    invoke*historic answers, height given by index/hash/root  *)
(*   fee         calculatenetworkfee / sendrawtransaction / getrawmempool  *)
(*   malformed   a request that got no answer at all (class "wellformed":   *)
(*               judged), and requests outside the protocol (informational)*)
(* `ret` says whether the node's configuration retains height h: the       *)
(* Sound predicates (an answer, if given, is right) hold for every         *)
(* request, the Complete ones (an answer IS given) only where ret.         *)
(* Predicates named "i:..." are informational (drift, never a verdict).    *)
(***************************************************************************)
EXTENDS TraceIO, FiniteSets, SequencesExt, RPCState

VARIABLES l
vars == <<l>>

Init == l = 1

\* The reference data are CONSTANT-level look-ups into the log (TLC evaluates them once): world w (the w-th init event)
\* has its ref events in height order, the h-th one describes height h.  Every other event names its world.
NWorlds == Len(SelectSeq(TLog, LAMBDA e : e.event = "init"))
RefIndex == [w \in 1..NWorlds |-> SelectSeq(TLog, LAMBDA e : e.event = "ref" /\ e.w = w)]

Sorted(s) == \A i \in 1..(Len(s) - 1) :
                \/ s[i].id < s[i + 1].id
                \/ (s[i].id = s[i + 1].id /\ BLess(s[i].k, s[i + 1].k))

Have(e) == e.w >= 1 /\ e.w <= NWorlds /\ e.h >= 1 /\ e.h <= Len(RefIndex[e.w])

\* a contract addressed by hash / name carries ck (its Management record key); addressed by id it carries none
Sof(e) == RefIndex[e.w][e.h].flat

Known(e) == IF e.ck = <<>> THEN TRUE ELSE ContractKnown(Sof(e), e.ck)

Lim(e) == IF e.count < 0 THEN e.cap ELSE Min2(e.count, e.cap)

\* one returned proof p = [have, id, k, lok, lv, rchecked, rok, rv] must verify (locally with mpt.VerifyProof and, when
\* asked, through the verifyproof RPC) to the given item of the answer
ProofShows(p, id, key, val) ==
    p.have => /\ p.id = id /\ p.k = key
              /\ p.lok /\ p.lv = val
              /\ (p.rchecked => (p.rok /\ p.rv = val))

Judge(e) ==
    CASE e.event = "root" ->
            NameIf(e.ok => e.root = RefIndex[e.w][e.h].root, "RootMatches")
            \cup NameIf(e.ret => e.ok, "RootAvailable")
      [] e.event = "stateheight" ->
            NameIf(e.ok /\ e.local = e.at, "StateHeightLocal")
      [] e.event = "getstate" ->
            NameIf(e.ok => (Known(e) /\ Present(Sof(e), e.id, e.k) /\ e.v = Stored(Sof(e), e.id, e.k)), "GetStateSound")
            \cup NameIf((e.ret /\ Known(e) /\ Present(Sof(e), e.id, e.k)) => e.ok, "GetStateComplete")
      [] e.event = "findstates" ->
            NameIf(e.ok => (Known(e) /\ FindStatesOK(Sof(e), e.id, e.prefix, e.fromgiven, e.from, Lim(e), e.keys, e.vals, e.truncated)),
                   "FindStatesSound")
            \cup NameIf((e.ret /\ Known(e) /\ (e.fromgiven => HasPrefix(e.from, e.prefix))) => e.ok, "FindStatesComplete")
            \cup NameIf(e.ok => /\ (e.fp.have => Len(e.keys) >= 1) /\ (e.lp.have => Len(e.keys) >= 1)
                                /\ (Len(e.keys) >= 1 => /\ ProofShows(e.fp, e.id, e.keys[1], e.vals[1])
                                                        /\ ProofShows(e.lp, e.id, e.keys[Len(e.keys)], e.vals[Len(e.keys)])),
                        "FindStatesProofsVerify")
            \cup NameIf(e.ok => (e.fp.have = (Len(e.keys) >= 1) /\ e.lp.have = (Len(e.keys) >= 2)), "i:ProofPresence")
      [] e.event = "paging" ->
            NameIf(e.complete => WalkExact(Sof(e), e.id, e.prefix, e.pages), "PagingExact")
            \cup NameIf(e.complete \/ e.stuck, "PagingTerminates")
            \cup NameIf(~e.stuck, "i:WalkPassesEmptyKey")
            \cup NameIf(e.predicted, "i:PagesAsModelled")
      [] e.event = "proof" ->
            LET pres == Known(e) /\ Present(Sof(e), e.id, e.k) IN
            NameIf((e.ret /\ pres) => (e.have /\ e.lok /\ e.lv = Stored(Sof(e), e.id, e.k)
                                       /\ (e.rchecked => (e.rok /\ e.rv = Stored(Sof(e), e.id, e.k)))), "ProofComplete")
            \cup NameIf(/\ (~pres => ~(e.have /\ (e.lok \/ (e.rchecked /\ e.rok))))
                        /\ ((pres /\ e.have /\ e.lok) => e.lv = Stored(Sof(e), e.id, e.k))
                        /\ ((pres /\ e.have /\ e.rchecked /\ e.rok) => e.rv = Stored(Sof(e), e.id, e.k)), "ProofSound")
      [] e.event = "forged" ->
            NameIf(/\ (e.lok => (Present(Sof(e), e.id, e.k) /\ e.lv = Stored(Sof(e), e.id, e.k)))
                   /\ ((e.rchecked /\ e.rok) => (Present(Sof(e), e.id, e.k) /\ e.rv = Stored(Sof(e), e.id, e.k))), "ProofSound")
      [] e.event = "getstorage" ->
            NameIf(e.ok => (Known(e) /\ Present(Sof(e), e.id, e.k) /\ e.v = Stored(Sof(e), e.id, e.k)), "GetStorageSound")
            \cup NameIf((e.ret /\ Known(e) /\ Present(Sof(e), e.id, e.k)) => e.ok, "GetStorageComplete")
      [] e.event = "findstorage" ->
            NameIf(e.ok => (Known(e) /\ FindStorageOK(Sof(e), e.id, e.prefix, e.start, e.cap, e.keys, e.vals, e.truncated, e.next)),
                   "FindStorageSound")
            \cup NameIf((e.ret /\ Known(e)) => e.ok, "FindStorageComplete")
            \cup NameIf(e.ok => e.next = e.start + Len(e.keys) \/ (Len(e.keys) = 0 /\ e.next <= e.start), "i:NextOfFinalPage")
      [] e.event = "historic" ->
            \* e.idx: which of the calls recorded live at h were repeated (positions in the reference list)
            NameIf(/\ Len(e.results) = Len(e.idx)
                   /\ \A i \in DOMAIN e.idx : e.idx[i] \in DOMAIN RefIndex[e.w][e.h].live
                   /\ \A i \in DOMAIN e.results : e.results[i] = "UNAVAILABLE" \/ e.results[i] = RefIndex[e.w][e.h].live[e.idx[i]],
                   "HistoricEqualsLive")
            \cup NameIf(e.ret => \A i \in DOMAIN e.results : e.results[i] # "UNAVAILABLE", "HistoricAvailable")
      [] e.event = "fee" ->
            NameIf(e.ok_client /\ e.ok_raw /\ e.f_client = e.f_raw, "FeeAgree")
            \cup NameIf(e.acc_f /\ ~e.acc_fm1, "FeeExact")
            \cup NameIf(e.pool_f /\ ~e.pool_fm1, "PoolReflects")
            \cup NameIf(e.f_client = e.size * e.fpb + e.attr + e.wit, "i:FeeFormula")
      [] e.event = "malformed" ->
            \* a request of the protocol ("wellformed") must be ANSWERED (result or error); what a handler does with a
            \* request outside the protocol (negative count, ...) is not the statement's subject: informational
            NameIf(e.answered, IF e.class = "wellformed" THEN "HandlerAnswers" ELSE "i:MalformedAnswered")
      [] OTHER -> {}

Ctx(e) == [event |-> e.event,
           node |-> IF "node" \in DOMAIN e THEN e.node ELSE "",
           h |-> IF "h" \in DOMAIN e THEN e.h ELSE 0]

Step ==
    /\ l <= Len(TLog)
    /\ l' = l + 1
    /\ LET e == TLog[l] IN
       CASE e.event = "init" -> TRUE
         [] e.event = "ref" ->
              Report(l, NameIf(Sorted(e.flat) /\ Have(e) /\ RefIndex[e.w][e.h] = e, "h:RefSorted"), [h |-> e.h])
         [] OTHER ->
              /\ IF "h" \in DOMAIN e /\ ~Have(e)
                    THEN Report(l, {"h:UnknownHeight"}, Ctx(e))
                    ELSE Report(l, Judge(e), Ctx(e))

TraceSpec == Init /\ [][Step]_vars
=============================================================================
