------------------------------ MODULE RPCState ------------------------------
(***************************************************************************)
(* C03 (and the fee clause of C07) as seen THROUGH THE RPC SERVER -        *)
(* ABSTRACT level, the judge.                                              *)
(*                                                                         *)
(* The only state the statement talks about is, per height h, the flat     *)
(* contract storage S_h after block h: a sequence of records               *)
(*      [id |-> contract id, k |-> key (byte sequence), v |-> value (hex)] *)
(* in ascending (id, key) order (what the reference node's storage dump    *)
(* gives).  Every RPC answer that names a state root (or a height, a block *)
(* hash) is a function of S_h, given here; the real server's answers are   *)
(* re-computed from the dump by RPCStateTrace.                             *)
(*                                                                         *)
(* What the module fixes                                                   *)
(*  (a) getstate      S_h look-up; an error for an absent key and for a    *)
(*                    contract that does not exist at h (existence is read *)
(*                    from S_h itself: the Management contract's record)   *)
(*  (b) findstates    the ascending list of the items of S_h under         *)
(*                    contract + prefix STRICTLY AFTER `from` (the item    *)
(*                    equal to the prefix is an ordinary member of the     *)
(*                    list: returned when there is no `from`, skipped when *)
(*                    `from` is that very key), cut at min(count, limit);  *)
(*                    truncated iff more remain; first / last proof verify *)
(*                    to the first / last returned item                    *)
(*  (c) proofs        complete for stored keys, sound for everything else  *)
(*  (d) findstorage   index paging: items start .. start+page-1 of the     *)
(*                    list under contract + prefix, truncated iff more     *)
(*                    remain, and (then) next = start + number returned    *)
(*  walks             a client that follows either paging protocol until   *)
(*                    truncated = FALSE has seen the list exactly once     *)
(*  (e) historic invocation = the live answer recorded at that height      *)
(*  (f) the network fee F answered by calculatenetworkfee is the threshold *)
(*                                                                         *)
(* What it leaves open on purpose: which error is returned; whether a      *)
(* `from` that is the EMPTY key means "after the empty key" or "no from"   *)
(* (the wire format cannot tell them apart: both readings are accepted     *)
(* here, Paging.tla shows what follows for a walk); proof presence for     *)
(* lists shorter than two items; `next` of a final page.                   *)
(***************************************************************************)
EXTENDS Integers, Sequences, FiniteSets, Bytes

MgmtId == -1        \* the Management native contract keeps one record per existing contract

Min2(a, b) == IF a < b THEN a ELSE b

Match(S, id, k)   == SelectSeq(S, LAMBDA it : it.id = id /\ it.k = k)
Present(S, id, k) == Match(S, id, k) # <<>>
Stored(S, id, k)  == Match(S, id, k)[1].v

\* ck = Management's storage key of the contract's record
ContractKnown(S, ck) == Present(S, MgmtId, ck)

\* ascending list of the items of one contract whose key has the prefix (the item equal to the prefix included)
Under(S, id, prefix) == SelectSeq(S, LAMBDA it : it.id = id /\ HasPrefix(it.k, prefix))

After(L, from) == SelectSeq(L, LAMBDA it : BLess(from, it.k))

\* (b) the acceptable full lists of a findstates request (a set: one list, or two when `from` is the empty key)
FindLists(S, id, prefix, fromgiven, from) ==
    LET U == Under(S, id, prefix) IN
    IF ~fromgiven THEN {U}
    ELSE IF from = <<>> THEN {U, After(U, from)}
    ELSE {After(U, from)}

PageOf(L, n)      == SubSeq(L, 1, Min2(n, Len(L)))
KeysOf(L)         == [i \in DOMAIN L |-> L[i].k]
ValsOf(L)         == [i \in DOMAIN L |-> L[i].v]

\* an observed findstates answer (keys, vals, truncated) against one acceptable list, n = min(count, limit)
FindAnswerIs(L, n, keys, vals, truncated) ==
    /\ keys = KeysOf(PageOf(L, n))
    /\ vals = ValsOf(PageOf(L, n))
    /\ truncated = (Len(L) > n)

FindStatesOK(S, id, prefix, fromgiven, from, n, keys, vals, truncated) ==
    \E L \in FindLists(S, id, prefix, fromgiven, from) : FindAnswerIs(L, n, keys, vals, truncated)

\* (d) index paging
StoragePage(L, start, page) == SubSeq(L, start + 1, Min2(start + page, Len(L)))
FindStorageOK(S, id, prefix, start, page, keys, vals, truncated, next) ==
    LET L == Under(S, id, prefix) IN
    /\ keys = KeysOf(StoragePage(L, start, page))
    /\ vals = ValsOf(StoragePage(L, start, page))
    /\ truncated = (Len(L) > start + page)
    /\ truncated => next = start + Len(keys)

\* walks: the concatenation of the pages of a finished walk
RECURSIVE Flatten(_)
Flatten(pp) == IF pp = <<>> THEN <<>> ELSE Head(pp) \o Flatten(Tail(pp))

WalkExact(S, id, prefix, pages) == Flatten(pages) = KeysOf(Under(S, id, prefix))
=============================================================================
