SPECIFICATION Spec
CONSTANTS
  Univ <- U5
  Prefixes <- P3
  PageSizes <- K4
  Caps <- C4
  Protos <- Both
  Bug = "cap_after_trunc"
  EmptyFromIsNone = TRUE
  Emit = FALSE
INVARIANTS PrefixOfFull DoneComplete TruncatedExact PageBound Progress EmitCase
CHECK_DEADLOCK FALSE
