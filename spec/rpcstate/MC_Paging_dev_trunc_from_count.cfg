SPECIFICATION Spec
CONSTANTS
  Univ <- U5
  Prefixes <- P3
  PageSizes <- K4
  Caps <- C4
  Protos <- Both
  Bug = "trunc_from_count"
  EmptyFromIsNone = TRUE
  Emit = FALSE
INVARIANTS PrefixOfFull DoneComplete TruncatedExact PageBound Progress EmitCase
CHECK_DEADLOCK FALSE
