SPECIFICATION Spec
CONSTANTS
  Univ <- U8
  Prefixes <- P3
  PageSizes <- K4
  Caps <- C4
  Protos <- Both
  Bug = "none"
  EmptyFromIsNone = TRUE
  Emit = TRUE
INVARIANTS PrefixOfFull DoneComplete TruncatedExact PageBound Progress EmitCase
CHECK_DEADLOCK FALSE
