------------------------------- MODULE Paging -------------------------------
(***************************************************************************)
(* The two paging protocols of the state RPCs as a small stateful model:   *)
(* a client walks the sorted finite map of one contract (the items under   *)
(* a prefix) page by page until the server says truncated = FALSE.         *)
(*                                                                         *)
(*   "from"   findstates: the client asks for k items and passes the LAST  *)
(*            KEY it received as `from`; the server answers at most        *)
(*            min(k, c) items strictly after `from` (c = MaxFindResultItems)*)
(*   "index"  findstorage: the client passes the server's `next` as        *)
(*            `start`; the server answers at most c items from that index  *)
(*            (c = MaxFindStoragePageSize)                                 *)
(*                                                                         *)
(* Server(...) is code shaped (rpcsrv.findStates / findStorageInternal:    *)
(* the prefix is cut off `from`, the trie is asked for n+1 items to learn  *)
(* whether more remain, an EMPTY `from` is read as "no from").  The        *)
(* invariants are the abstract paging law of RPCState.tla:                 *)
(*   PrefixOfFull    what the client has so far is a prefix of the list    *)
(*                   (nothing lost, nothing repeated at a page border)     *)
(*   DoneComplete    a finished walk has seen exactly the list             *)
(*   TruncatedExact  truncated  <=>  more remain after this page           *)
(*   PageBound       a page never exceeds min(k, c)                        *)
(* TLC checks them for every map over the key universe (keys that are      *)
(* prefixes of each other, 0x00 / 0xff bytes, a key equal to the prefix),  *)
(* every prefix, page size and limit, and refutes each NAMED DEVIATION     *)
(* (constant Bug):                                                         *)
(*   inclusive_from    `from` itself is returned again                     *)
(*   trunc_from_count  truncated := "the page is full"                     *)
(*   cap_after_trunc   truncated computed against the requested count,     *)
(*                     the server limit applied afterwards                 *)
(*   from_full_key     `from` compared without cutting the prefix off      *)
(*   next_off_by_one   findstorage's next one too far                      *)
(* and one property of the real protocol (EmptyFromIsNone = TRUE, what the *)
(* server and the C# node do): a walk cannot pass an EMPTY key - refuted   *)
(* on the universe that has the empty key, holds on every other one.       *)
(* With Emit = TRUE every finished walk is printed (@@CASE@@) and replayed *)
(* against the real server on a contract whose storage realises the map.   *)
(***************************************************************************)
EXTENDS Integers, Sequences, FiniteSets, Bytes, TLC, Json

CONSTANTS Univ,             \* the key universe: a sequence of keys in ascending order
          Prefixes, PageSizes, Caps, Protos,
          Bug, EmptyFromIsNone, Emit

VARIABLES m, p, k, c, proto,            \* the case: map (set of keys), prefix, page size, server limit, protocol
          fromgiven, from, start,       \* client cursor
          got, pages, truncs, done, stuck, steps

vars == <<m, p, k, c, proto, fromgiven, from, start, got, pages, truncs, done, stuck, steps>>

Min2(a, b) == IF a < b THEN a ELSE b
RangeOf(s) == {s[i] : i \in DOMAIN s}

\* the abstract list the walk is about
Full == SelectSeq(Univ, LAMBDA x : x \in m /\ HasPrefix(x, p))

Rel(x) == Drop(x, Len(p))

ServeFrom ==
    LET none == ~fromgiven \/ (EmptyFromIsNone /\ from = <<>>)
        st   == IF Bug = "from_full_key" THEN from ELSE Rel(from)
        L    == IF none THEN Full
                ELSE SelectSeq(Full, LAMBDA x : IF Bug = "inclusive_from" THEN BLeq(st, Rel(x)) ELSE BLess(st, Rel(x)))
        n    == Min2(k, c)
        page == SubSeq(L, 1, Min2(n, Len(L)))
        tr   == CASE Bug = "trunc_from_count" -> Len(page) = n
                  [] Bug = "cap_after_trunc"  -> Len(L) > k
                  [] OTHER                    -> Len(L) > n
    IN [page |-> page, trunc |-> tr, next |-> 0]

ServeIndex ==
    LET page == SubSeq(Full, start + 1, Min2(start + c, Len(Full)))
    IN [page |-> page, trunc |-> Len(Full) > start + c,
        next |-> start + Len(page) + (IF Bug = "next_off_by_one" THEN 1 ELSE 0)]

Init ==
    /\ m \in SUBSET RangeOf(Univ)
    /\ p \in Prefixes
    /\ c \in Caps
    /\ proto \in Protos
    /\ k \in (IF proto = "from" THEN PageSizes ELSE {0})
    /\ fromgiven = FALSE /\ from = <<>> /\ start = 0
    /\ got = <<>> /\ pages = <<>> /\ truncs = <<>> /\ done = FALSE /\ stuck = FALSE /\ steps = 0

Request ==
    /\ ~done
    /\ LET r == IF proto = "from" THEN ServeFrom ELSE ServeIndex IN
       /\ got' = got \o r.page
       /\ pages' = Append(pages, r.page)
       /\ truncs' = Append(truncs, r.trunc)
       /\ IF r.trunc /\ r.page # <<>>
             THEN /\ fromgiven' = TRUE /\ from' = r.page[Len(r.page)] /\ start' = r.next
                  /\ done' = FALSE /\ stuck' = FALSE
             ELSE /\ UNCHANGED <<fromgiven, from, start>>
                  /\ done' = TRUE /\ stuck' = r.trunc       \* truncated without anything to go on with
    /\ steps' = steps + 1
    /\ UNCHANGED <<m, p, k, c, proto>>

Next == Request
Spec == Init /\ [][Next]_vars

------------------------------------------------------------------------------
PrefixOfFull   == Len(got) <= Len(Full) /\ got = SubSeq(Full, 1, Len(got))
DoneComplete   == done => (got = Full /\ ~stuck)
TruncatedExact == steps > 0 => (truncs[steps] = (Len(got) < Len(Full)))
PageBound      == steps > 0 => Len(pages[steps]) <= (IF proto = "from" THEN Min2(k, c) ELSE c)
Progress       == steps <= Len(Full) + 1

EmitCase == (Emit /\ done) =>
    PrintT(<<"@@CASE@@", ToJson([m |-> SelectSeq(Univ, LAMBDA x : x \in m), p |-> p, k |-> k, c |-> c, proto |-> proto,
                                 pages |-> pages, truncs |-> truncs])>>)
=============================================================================
