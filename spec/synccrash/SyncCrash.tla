------------------------------ MODULE SyncCrash ------------------------------
(***************************************************************************)
(* CRASHES during state synchronisation (pkg/core/statesync/module.go,      *)
(* pkg/core/mpt/billet.go, Blockchain.jumpToStateInternal), MPT-based mode. *)
(*                                                                         *)
(* C02: "If the node dies between any two atomic batch writes to its        *)
(* database - during ... a state-sync jump - reopening the database gives   *)
(* a node ... whose state equals that of an uninterrupted node at that      *)
(* height ... An interrupted ... state jump is resumed on restart and ends  *)
(* in the same database content as an uninterrupted one."                   *)
(* C20: "A node that bootstraps by state synchronisation - headers, then    *)
(* trie nodes ... delivered in any order, batching and duplication with     *)
(* restarts in between, then blocks - ends with exactly the state root and  *)
(* contract storage a fully synchronised node has at the sync point ...".   *)
(*                                                                         *)
(* The sink's DISK is the record of facts start-up and Module.Init read;    *)
(* it changes only by ATOMIC BATCHES: the node writes into a write cache    *)
(* (mem: what the node sees) and a batch makes disk := mem.  Batches are    *)
(* issued by a flush that may fall between any two deliveries (the          *)
(* persist timer), by the three stage changes (PersistSync when headers /   *)
(* trie / blocks are complete) and by every stage of the jump.  Crash       *)
(* drops the write cache and the module's memory (pool of wanted nodes,     *)
(* billet, block height); Boot is the recovery function: NewBlockchain      *)
(* (an interrupted jump is resumed) followed by Module.Init                 *)
(* (defineSyncStage: the stage is INFERRED from the stored data, the pool   *)
(* is rebuilt by a traversal of the restored part of the trie).             *)
(*                                                                         *)
(* The source trie is a tree of OCCURRENCES (Pos): Lab[q] is the node       *)
(* (hash) at position q, equal labels mean identical sub-tries (a leaf is   *)
(* hashed from its value only: two keys with one value share the leaf).     *)
(* A stored node carries a reference count: one per restored occurrence.    *)
(***************************************************************************)
EXTENDS Integers, FiniteSets, Sequences, TLC, SyncFacts

CONSTANTS
    Pos, RootPos, Kids, Lab,
    Order,      \* Pos in the pre-order in which Billet.traverse visits them
    NH,         \* headers the source offers: 1..NH
    SP,         \* the sync point; headers are complete once the header height is above it (SP < NH)
    Win,        \* window blocks are numbered 1..Win, Win is the sync point's block
    PageSz,     \* header hashes per stored page
    MaxCrash, MaxFlush,
    Dev         \* named deviations switched on (a set of names, {} = the design)

Labels  == {Lab[q] : q \in Pos}
LeafPos == {q \in Pos : Kids[q] = {}}
Occ(n)  == Cardinality({q \in Pos : Lab[q] = n})
Par(q)  == CHOOSE p \in Pos : q \in Kids[p]
RECURSIVE Ancestors(_)
Ancestors(q) == IF q = RootPos THEN {} ELSE {Par(q)} \cup Ancestors(Par(q))

VARIABLES
    disk,     \* the database
    mem,      \* the database as the running node sees it (disk + write cache)
    stage,    \* "down" | "headers" | "mpt" | "blocks" | "jump" | "done"
    pool,     \* wanted occurrences (hash -> paths)
    bh,       \* Module.blockHeight
    half,     \* a deviation's two-batch step is half done
    crashes, flushes,
    err       \* "" or why the node failed: a panic, a refusal of correct data, a refused start, a failed jump

vars == <<disk, mem, stage, pool, bh, half, crashes, flushes, err>>

Genesis == [hdr |-> 0, pages |-> 0, sp |-> FALSE, gen |-> TRUE, rc |-> [n \in Labels |-> 0], tmp |-> {}, old |-> TRUE,
            blks |-> {}, bptr |-> 0, jst |-> "none", swapped |-> FALSE, atP |-> FALSE, root |-> FALSE]

\* what an uninterrupted synchronisation leaves behind (header height aside: it depends on how many headers were offered)
Final == [Genesis EXCEPT !.sp = TRUE, !.gen = FALSE, !.rc = [n \in Labels |-> Occ(n)], !.tmp = LeafPos, !.old = FALSE,
                         !.blks = 1..Win, !.bptr = Win, !.swapped = TRUE, !.atP = TRUE, !.root = TRUE]
NoHdr(m) == [m EXCEPT !.hdr = 0, !.pages = 0]

----------------------------------------------------------------------------
(* the restored part of the trie *)
RECURSIVE Down(_, _)
Down(rc, q) == IF rc[Lab[q]] = 0 THEN {} ELSE {q} \cup UNION {Down(rc, k) : k \in Kids[q]}
Restored(rc) == Down(rc, RootPos)
Frontier(rc) == {q \in Pos : rc[Lab[q]] = 0 /\ (q = RootPos \/ Par(q) \in Restored(rc))}

(* defineSyncStage's traversal: the pool starts with the root; every visited (stored) occurrence takes ALL the
   paths its node has in the pool at that moment and puts its children's paths in.  A later occurrence of the
   same node may find nothing: the design skips it (its paths were taken by the first visit), the pinned
   behaviour panicked ("failed to get MPT node from the pool"). *)
RECURSIVE Trav(_, _, _)
Trav(rc, i, s) ==   \* s = [pool, trap]
    IF i > Len(Order) THEN s
    ELSE LET q == Order[i] IN
         IF q \notin Restored(rc) THEN Trav(rc, i + 1, s)
         ELSE LET Q == {p \in s.pool : Lab[p] = Lab[q]} IN
              IF Q = {} THEN Trav(rc, i + 1, [s EXCEPT !.trap = TRUE])
              ELSE Trav(rc, i + 1, [s EXCEPT !.pool = (s.pool \ Q) \cup UNION {Kids[p] : p \in Q}])
Traversal(rc) == Trav(rc, 1, [pool |-> {RootPos}, trap |-> FALSE])

(* restoreNode: an arriving node is restored at every path the pool has for it; its children become wanted;
   children that are in the store already are restored at once (recursively) *)
RECURSIVE Settle(_)
Settle(s) ==   \* s = [rc, tmp, pool]
    LET Q == {q \in s.pool : s.rc[Lab[q]] > 0} IN
    IF Q = {} THEN s
    ELSE LET n  == Lab[CHOOSE q \in Q : TRUE]
             Qn == {q \in Q : Lab[q] = n}
         IN  Settle([rc |-> [s.rc EXCEPT ![n] = @ + Cardinality(Qn)], tmp |-> s.tmp \cup (Qn \cap LeafPos),
                     pool |-> (s.pool \ Qn) \cup UNION {Kids[q] : q \in Qn}])
Arrive(s, n) ==
    LET Qn == {q \in s.pool : Lab[q] = n} IN
    IF Qn = {} THEN s     \* nobody asked for it (any more): ignored
    ELSE Settle([rc |-> [s.rc EXCEPT ![n] = @ + Cardinality(Qn)], tmp |-> s.tmp \cup (Qn \cap LeafPos),
                 pool |-> (s.pool \ Qn) \cup UNION {Kids[q] : q \in Qn}])
RECURSIVE ArriveAll(_, _)
ArriveAll(s, B) == IF B = {} THEN s ELSE LET n == CHOOSE x \in B : TRUE IN ArriveAll(Arrive(s, n), B \ {n})

(* Billet collapses a completely restored sub-trie into a hash node; nothing can be restored below a collapsed
   node.  Deviation EarlyComplete: a branch counts as complete as soon as ONE child is. *)
RECURSIVE Collapsed(_, _)
Collapsed(R, q) ==
    /\ q \in R
    /\ IF "EarlyComplete" \in Dev THEN Kids[q] = {} \/ \E k \in Kids[q] : Collapsed(R, k)
       ELSE \A k \in Kids[q] : Collapsed(R, k)
Refused(rc, B) == \E q \in pool : Lab[q] \in B /\ \E a \in Ancestors(q) : Collapsed(Restored(rc), a)

----------------------------------------------------------------------------
FactsOf(m) == [hdrDone |-> m.hdr > SP, sp |-> m.sp, trieDone |-> Frontier(m.rc) = {}, blkDone |-> m.bptr >= Win,
               jst |-> m.jst, atP |-> m.atP, trap |-> Traversal(m.rc).trap]

Init ==
    /\ disk = Genesis /\ mem = Genesis
    /\ stage = "down" /\ pool = {} /\ bh = 0 /\ half = FALSE /\ crashes = 0 /\ flushes = 0 /\ err = ""

Up == stage \notin {"down"} /\ err = ""

(* Module.Init -> defineSyncStage on what the node sees *)
Define(m) ==
    IF m.hdr <= SP THEN [stage |-> "headers", pool |-> {}, bh |-> 0, err |-> ""]
    ELSE LET t  == Traversal(m.rc)
             pl == IF "NoTraverse" \in Dev THEN {RootPos} ELSE t.pool
         IN  IF t.trap /\ "PinnedTraversal" \in Dev THEN [stage |-> "down", pool |-> {}, bh |-> 0, err |-> "init-panic"]
             ELSE IF pl # {} THEN [stage |-> "mpt", pool |-> pl, bh |-> 0, err |-> ""]
             ELSE IF m.bptr < Win THEN [stage |-> "blocks", pool |-> {}, bh |-> m.bptr, err |-> ""]
             ELSE IF "PinnedNoJump" \in Dev THEN [stage |-> "done", pool |-> {}, bh |-> m.bptr, err |-> ""]
             ELSE [stage |-> "jump", pool |-> {}, bh |-> m.bptr, err |-> ""]

Boot ==
    /\ stage = "down" /\ err = ""
    /\ UNCHANGED <<disk, half, crashes, flushes>>
    /\ IF mem.jst # "none"
       THEN /\ stage' = "jump" /\ UNCHANGED <<mem, pool, bh, err>>              \* NewBlockchain resumes the jump
       ELSE IF ~mem.atP /\ ~(mem.old /\ ~mem.swapped)
       THEN /\ err' = "start-refused" /\ UNCHANGED <<mem, stage, pool, bh>>     \* height 0 without the genesis state
       ELSE IF mem.atP
       THEN /\ stage' = "done" /\ UNCHANGED <<mem, pool, bh, err>>
       ELSE LET m1 == IF mem.sp THEN mem ELSE [mem EXCEPT !.sp = TRUE, !.gen = FALSE]   \* CleanStorage + the marker
                d  == Define(m1)
            IN  /\ mem' = m1
                /\ stage' = d.stage /\ pool' = d.pool /\ bh' = d.bh /\ err' = d.err

\* deviation SpBeforeClean: the sync point marker is flushed on its own before the genesis trie is removed
SpAlone ==
    /\ "SpBeforeClean" \in Dev /\ stage = "down" /\ err = "" /\ mem.jst = "none" /\ ~mem.atP /\ ~mem.sp
    /\ mem' = [mem EXCEPT !.sp = TRUE] /\ disk' = mem'
    /\ UNCHANGED <<stage, pool, bh, half, crashes, flushes, err>>

Headers(k) ==
    /\ Up /\ stage = "headers" /\ k \in 1..(NH - mem.hdr)
    /\ LET m1 == [mem EXCEPT !.hdr = @ + k, !.pages = (mem.hdr + k + 1) \div PageSz] IN
       /\ mem' = m1
       /\ IF m1.hdr > SP
          THEN LET d == Define(m1) IN disk' = m1 /\ stage' = d.stage /\ pool' = d.pool /\ bh' = d.bh /\ err' = d.err
          ELSE UNCHANGED <<disk, stage, pool, bh, err>>
    /\ UNCHANGED <<half, crashes, flushes>>

Nodes(B) ==
    /\ Up /\ stage = "mpt" /\ B # {} /\ B \subseteq {Lab[q] : q \in pool}
    /\ UNCHANGED <<half, crashes, flushes>>
    /\ IF Refused(mem.rc, B)
       THEN err' = "refused" /\ UNCHANGED <<disk, mem, stage, pool, bh>>
       ELSE LET s  == ArriveAll([rc |-> mem.rc, tmp |-> mem.tmp, pool |-> pool], B)
                m1 == [mem EXCEPT !.rc = s.rc, !.tmp = s.tmp]
            IN  /\ mem' = m1 /\ pool' = s.pool /\ err' = ""
                /\ IF s.pool = {}
                   THEN /\ disk' = m1 /\ bh' = m1.bptr
                        /\ stage' = IF m1.bptr >= Win THEN "jump" ELSE "blocks"
                   ELSE UNCHANGED <<disk, stage, bh>>

Block ==
    /\ Up /\ stage = "blocks" /\ bh < Win
    /\ LET h  == bh + 1
           m1 == [mem EXCEPT !.blks = @ \cup {h}, !.bptr = IF "PtrAhead" \in Dev THEN h + 1 ELSE h]
       IN  /\ mem' = m1 /\ bh' = h
           /\ IF h = Win THEN disk' = m1 /\ stage' = "jump" ELSE UNCHANGED <<disk, stage>>
    /\ UNCHANGED <<pool, half, crashes, flushes, err>>

(* jumpToStateInternal: every stage ends with a batch; the stage marker names the stage to resume at *)
JumpStep ==
    /\ Up /\ stage = "jump"
    /\ UNCHANGED <<pool, bh, crashes, flushes>>
    /\ CASE mem.jst = "none" ->
              IF "CleanFirst" \in Dev /\ ~half
              THEN /\ mem' = [mem EXCEPT !.old = FALSE] /\ disk' = mem' /\ half' = TRUE /\ UNCHANGED <<stage, err>>
              ELSE /\ mem' = [mem EXCEPT !.jst = "j1"] /\ disk' = mem' /\ half' = FALSE /\ UNCHANGED <<stage, err>>
         [] mem.jst = "j1" ->
              IF "JumpMarkerFirst" \in Dev
              THEN /\ mem' = [mem EXCEPT !.jst = "j2"] /\ disk' = mem' /\ half' = TRUE /\ UNCHANGED <<stage, err>>
              ELSE /\ mem' = [mem EXCEPT !.jst = "j2", !.swapped = TRUE] /\ disk' = mem' /\ UNCHANGED <<stage, err, half>>
         [] mem.jst = "j2" /\ half ->
              /\ mem' = [mem EXCEPT !.swapped = TRUE] /\ disk' = mem' /\ half' = FALSE /\ UNCHANGED <<stage, err>>
         [] mem.jst = "j2" /\ ~half ->
              IF Win \notin mem.blks
              THEN err' = "jump-failed" /\ UNCHANGED <<disk, mem, stage, half>>      \* the sync point's block is not there
              ELSE /\ mem' = [mem EXCEPT !.old = IF mem.swapped THEN FALSE ELSE @,   \* the items under the INACTIVE prefix go
                                         !.tmp = IF mem.swapped THEN @ ELSE {},
                                         !.atP = TRUE, !.jst = "j3"]
                   /\ disk' = mem' /\ UNCHANGED <<stage, err, half>>
         [] mem.jst = "j3" ->
              /\ mem' = [mem EXCEPT !.root = TRUE, !.jst = "none"] /\ disk' = mem'
              /\ stage' = "done" /\ UNCHANGED <<err, half>>

Flush ==
    /\ Up /\ flushes < MaxFlush /\ disk # mem
    /\ disk' = mem /\ flushes' = flushes + 1
    /\ UNCHANGED <<mem, stage, pool, bh, half, crashes, err>>

Crash ==
    /\ err = "" /\ crashes < MaxCrash /\ stage # "down"
    /\ mem' = disk /\ stage' = "down" /\ pool' = {} /\ bh' = 0 /\ half' = FALSE /\ crashes' = crashes + 1
    /\ UNCHANGED <<disk, flushes, err>>

Next ==
    \/ Boot \/ SpAlone
    \/ \E k \in 1..NH : Headers(k)
    \/ \E B \in SUBSET Labels : Nodes(B)
    \/ Block \/ JumpStep \/ Flush \/ Crash

Spec == Init /\ [][Next]_vars

----------------------------------------------------------------------------
(* THE JUDGE: what the statements say *)

Full(m) == m.swapped /\ m.tmp = LeafPos /\ ~m.old /\ (\A n \in Labels : m.rc[n] >= 1) /\ m.root /\ Win \in m.blks
\* a database that is not in the middle of a jump is a node at genesis with the genesis state, or at the sync point with the source's state
Claims(m) == m.jst = "none" => IF m.atP THEN Full(m) ELSE (m.old /\ ~m.swapped)
\* (a) never state that differs from the source's for what the node claims to have; nothing foreign is stored
NoCorruption == Claims(disk) /\ Claims(mem) /\ mem.tmp \subseteq LeafPos

\* (b) from every crash point the synchronisation can be continued to the end: no panic, no refusal of correct data, no refused
\*     start, no failed jump, no stage that needs data and asks for none, no completion claimed without the jump
Stuck == \/ stage = "mpt" /\ pool = {}
         \/ stage = "blocks" /\ bh >= Win
         \/ stage = "headers" /\ mem.hdr > SP
         \/ stage = "done" /\ ~mem.atP
Resumable == err = "" /\ ~Stuck

\* (d) the database at the end is the one of an uninterrupted synchronisation
CrashTransparent == stage = "done" => NoHdr(mem) = Final

----------------------------------------------------------------------------
(* Impl level: what the design promises about its own bookkeeping (drift detectors on real traces) *)
AtRest == stage \in {"mpt", "blocks", "jump", "done"}
PoolSound == stage = "mpt" => pool = Frontier(mem.rc)
RcSound(m) == \A n \in Labels : m.rc[n] = Cardinality({q \in Restored(m.rc) : Lab[q] = n})
TmpSound(m) == m.jst = "none" /\ ~m.atP => m.tmp = Restored(m.rc) \cap LeafPos
Contig(S) == \A h \in S : \A g \in 1..h : g \in S
MarkersFollowData(m) ==
    /\ m.bptr > 0 => (m.bptr \in m.blks /\ Contig(m.blks))
    /\ m.blks # {} => Frontier(m.rc) = {}
    /\ (\E n \in Labels : m.rc[n] > 0) => m.hdr > SP
    /\ m.hdr > 0 => m.sp
    /\ m.sp => ~m.gen
    /\ m.jst # "none" => (m.bptr = Win /\ Frontier(m.rc) = {})
    /\ m.pages = (m.hdr + 1) \div PageSz
Coherent == MarkersFollowData(disk) /\ RcSound(disk) /\ TmpSound(disk) /\ RcSound(mem)
\* the size-independent stage function the judge of real traces uses agrees with the model's recovery
StageFn == (stage \in {"headers", "mpt", "blocks", "done"} /\ err = "") => Reported(FactsOf(mem)) = stage

TypeOK ==
    /\ stage \in {"down", "headers", "mpt", "blocks", "jump", "done"}
    /\ pool \subseteq Pos /\ bh \in 0..(Win + 1) /\ half \in BOOLEAN
    /\ err \in {"", "init-panic", "refused", "start-refused", "jump-failed"}
    /\ disk.jst \in {"none", "j1", "j2", "j3"}
=============================================================================
