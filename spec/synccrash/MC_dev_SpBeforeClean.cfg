SPECIFICATION Spec
CONSTANTS
  Pos <- P8
  RootPos = "r"
  Kids <- K8
  Lab <- L8
  Order <- O8
  NH = 3
  SP = 1
  Win = 2
  PageSz = 2
  MaxCrash = 1
  MaxFlush = 2
  Dev <- D_SpBeforeClean
INVARIANTS CrashTransparent
CHECK_DEADLOCK FALSE
