---------------------------- MODULE MCSyncCrash ----------------------------
(* A sync point's trie with everything the pool / billet bookkeeping has to cope with:
     r  branch          -> a, s2            a  branch -> l1, l1b, s1
     l1, l1b            the SAME leaf in two slots of one branch (two adjacent keys with one value)
     s1, s2             the SAME extension under two different parents, each with its leaf m1 / m2
   Order is the pre-order of Billet.traverse. *)
EXTENDS SyncCrash

P8 == {"r", "a", "l1", "l1b", "s1", "m1", "s2", "m2"}
K8 == [q \in P8 |-> CASE q = "r" -> {"a", "s2"} [] q = "a" -> {"l1", "l1b", "s1"} [] q = "s1" -> {"m1"} [] q = "s2" -> {"m2"} [] OTHER -> {}]
L8 == [q \in P8 |-> CASE q \in {"l1", "l1b"} -> "l" [] q \in {"s1", "s2"} -> "s" [] q \in {"m1", "m2"} -> "m" [] OTHER -> q]
O8 == <<"r", "a", "l1", "l1b", "s1", "m1", "s2", "m2">>

\* a smaller one for the two-crash runs
P5 == {"r", "l1", "l1b", "s1", "m1"}
K5 == [q \in P5 |-> CASE q = "r" -> {"l1", "l1b", "s1"} [] q = "s1" -> {"m1"} [] OTHER -> {}]
L5 == [q \in P5 |-> CASE q \in {"l1", "l1b"} -> "l" [] OTHER -> q]
O5 == <<"r", "l1", "l1b", "s1", "m1">>

\* the same leaf below a branch and, further up, below an ancestor of that branch (reached through an extension)
PA == {"r", "e", "a", "x1", "y", "x2"}
KA == [q \in PA |-> CASE q = "r" -> {"e", "x2"} [] q = "e" -> {"a"} [] q = "a" -> {"x1", "y"} [] OTHER -> {}]
LA == [q \in PA |-> CASE q \in {"x1", "x2"} -> "x" [] OTHER -> q]
OA == <<"r", "e", "a", "x1", "y", "x2">>

None == {}
D_MarkerFirst == {"JumpMarkerFirst"}
D_NoTraverse == {"NoTraverse"}
D_EarlyComplete == {"EarlyComplete"}
D_PtrAhead == {"PtrAhead"}
D_CleanFirst == {"CleanFirst"}
D_SpBeforeClean == {"SpBeforeClean"}
D_PinnedTraversal == {"PinnedTraversal"}
D_PinnedNoJump == {"PinnedNoJump"}
=============================================================================
