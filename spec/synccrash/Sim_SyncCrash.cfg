SPECIFICATION SimSpec
CONSTANTS
  Pos <- P8
  RootPos = "r"
  Kids <- K8
  Lab <- L8
  Order <- O8
  NH = 3
  SP = 1
  Win = 3
  PageSz = 2
  MaxCrash = 0
  MaxFlush = 8
  Dev <- None
  Depth = 16
INVARIANT Emit
CHECK_DEADLOCK FALSE
