--------------------------- MODULE SyncCrashTrace ---------------------------
(* Judge of what a real bootstrapping node did when it was crashed at atomic-batch boundaries during state
   synchronisation (harness/c02synccrash).  Total and reporting (TraceIO): every line is consumed, every falsified
   predicate is reported.

   JUDGED (the statements of C02 / C20, see SyncCrash.tla):
     NoCorruption      no stored trie node / temporary storage item that is not the source's; after a restart the node
                       serves the state of the height it reports (genesis or the sync point); at completion it is at the
                       sync point with the source's state root and storage
     Resumable         after ANY crash the database can be opened, Module.Init accepts it, and continuing the delivery (any
                       order, duplicates) ends the synchronisation: nothing correct is refused, no stage needs data and asks for
                       none, completion is not reported below the sync point
     Panic             no Go panic escapes start-up, Init or a delivery
     Lockstep          afterwards the node reproduces the source's digest block by block
     CrashTransparent  the final database equals the one of an uninterrupted synchronisation of the same source
   DRIFT (Impl level, information only): Drift_Stage - the stage reported after the restart is the one SyncFacts!Reported
   infers from the durable facts; Drift_Markers / Drift_Rc / Drift_Temp - SyncCrash!MarkersFollowData, RcSound, TmpSound on the
   projected database after every batch.
   EXPLANATIONS: Pinned_InitTraversal / Pinned_NoJump - the failure is the one the model's named deviations PinnedTraversal /
   PinnedNoJump (behaviour of the tree before 847be2f / 8af99ad) predict from the durable facts. *)
EXTENDS TraceIO, FiniteSets, SyncFacts

VARIABLES l, cur, p
vars == <<l, cur, p>>

NoFacts == [hdrDone |-> FALSE, sp |-> FALSE, trieDone |-> FALSE, blkDone |-> FALSE, jst |-> "none", atP |-> FALSE, trap |-> FALSE]
FactsOfDisk(d, sp) == [hdrDone |-> d.hdr > sp, sp |-> d.sp >= 0, trieDone |-> d.trie_done, blkDone |-> d.bptr >= sp,
                       jst |-> d.jst, atP |-> sp > 0 /\ d.cur >= sp, trap |-> d.trap]

Markers(d, sp, page) ==
    /\ d.bptr >= 0 => d.bptr <= d.blk_upto
    /\ d.blk_any > 0 => d.trie_done
    /\ d.stored > 0 => d.hdr > sp
    /\ d.hdr > 0 => d.sp >= 0
    /\ d.sp >= 0 => d.gen_only = 0
    /\ d.jst # "none" => (d.bptr >= sp /\ d.trie_done)
    /\ d.pages = (d.hdr + 1) \div page

Init == l = 1 /\ cur = NoFacts /\ p = 0

Step ==
    /\ l <= Len(TLog)
    /\ l' = l + 1
    /\ LET e == TLog[l] IN
       CASE e.event = "world" -> p' = e.p /\ cur' = NoFacts
         [] e.event = "batch" ->
              /\ UNCHANGED <<cur, p>>
              /\ LET d == e.disk
                     sync == e.class # "after-sync"
                 IN  Report(l, NameIf(~sync \/ (d.foreign = 0 /\ d.temp_bad = 0), "NoCorruption")
                               \cup NameIf(~sync \/ Markers(d, e.p, e.page), "Drift_Markers")
                               \cup NameIf(~sync \/ (d.rc_bad = 0 /\ d.orphans = 0), "Drift_Rc")
                               \cup NameIf(~sync \/ d.temp_miss \in {0, -1}, "Drift_Temp"),
                            [class |-> e.class, label |-> e.label])
         [] e.event = "crash" -> cur' = FactsOfDisk(e.disk, e.p) /\ p' = e.p
         [] e.event = "recover" ->
              /\ UNCHANGED <<cur, p>>
              /\ LET okBoot == e.open_ok /\ e.init_ok
                     sane   == ~e.booted \/ (e.height \in {0, p} /\ (e.reported = "done" => e.height = p))
                 IN  Report(l, NameIf(e.panic = "", "Panic")
                               \cup NameIf(okBoot /\ sane, "Resumable")
                               \cup NameIf(e.claim_ok, "NoCorruption")
                               \cup NameIf(~e.booted \/ e.reported = Reported(cur), "Drift_Stage")
                               \cup (IF e.pool_panic /\ PinnedPanic(cur) THEN {"Pinned_InitTraversal"} ELSE {})
                               \cup (IF e.booted /\ e.reported = "done" /\ e.height = 0 /\ PinnedNoJump(cur) THEN {"Pinned_NoJump"} ELSE {}),
                            [point |-> e.point, stage |-> e.stage, reported |-> e.reported, predicted |-> Reported(cur)])
         [] e.event = "resume" ->
              /\ UNCHANGED <<cur, p>>
              /\ Report(l, NameIf(e.panic = "", "Panic") \cup NameIf(e.panic # "" \/ (e.completed /\ e.refused = 0 /\ e.stuck = ""), "Resumable"),
                        [point |-> e.point, stage |-> e.stage])
         [] e.event = "synced" ->
              /\ UNCHANGED <<cur, p>>
              /\ Report(l, NameIf(e.root_ok /\ e.storage_ok /\ e.height = e.p, "NoCorruption"), [point |-> e.point, stage |-> e.stage])
         [] e.event = "lockstep" ->
              /\ UNCHANGED <<cur, p>>
              /\ Report(l, NameIf(e.ok /\ e.same, "Lockstep"), [point |-> e.point, stage |-> e.stage])
         [] e.event = "final" ->
              /\ UNCHANGED <<cur, p>>
              /\ Report(l, NameIf(e.raw_equal /\ e.raw_equal2, "CrashTransparent"), [point |-> e.point, stage |-> e.stage])
         [] OTHER -> UNCHANGED <<cur, p>>

TraceSpec == Init /\ [][Step]_vars
=============================================================================
