SPECIFICATION Spec
CONSTANTS
  Pos <- P8
  RootPos = "r"
  Kids <- K8
  Lab <- L8
  Order <- O8
  NH = 3
  SP = 1
  Win = 2
  PageSz = 2
  MaxCrash = 2
  MaxFlush = 3
  Dev <- None
INVARIANTS TypeOK NoCorruption Resumable CrashTransparent PoolSound Coherent StageFn
CHECK_DEADLOCK FALSE
