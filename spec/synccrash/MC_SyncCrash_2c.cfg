SPECIFICATION Spec
CONSTANTS
  Pos <- P5
  RootPos = "r"
  Kids <- K5
  Lab <- L5
  Order <- O5
  NH = 3
  SP = 1
  Win = 2
  PageSz = 2
  MaxCrash = 2
  MaxFlush = 2
  Dev <- None
INVARIANTS TypeOK NoCorruption Resumable CrashTransparent PoolSound Coherent StageFn
CHECK_DEADLOCK FALSE
