------------------------------ MODULE SyncFacts ------------------------------
(***************************************************************************)
(* The facts a bootstrapping node's start-up (core.NewBlockchain) and       *)
(* statesync.Module.Init (defineSyncStage) read from the database, in a     *)
(* size-independent form shared by the model (SyncCrash.tla, which derives  *)
(* them from its tiny disk) and the judge of real traces                    *)
(* (SyncCrashTrace.tla, which gets them from the projection of a real       *)
(* database image: harness/c02synccrash/proj.go).                           *)
(*                                                                         *)
(*   hdrDone   the stored header height is above the sync point            *)
(*   sp        SYSStateSyncPoint is stored                                 *)
(*   trieDone  every node of the sync point's trie is stored               *)
(*   blkDone   SYSStateSyncCurrentBlockHeight has reached the sync point   *)
(*   jst       jump stage marker: "none" | "j1" | "j2" | "j3"              *)
(*   atP       SYSCurrentBlock is the sync point                           *)
(*   trap      the stored part of the trie holds a node under several      *)
(*             paths such that the pool rebuilt by the traversal loses     *)
(*             track of it (pinned behaviour of the tree: Init panics)     *)
(***************************************************************************)
EXTENDS Integers

\* The stage the node reports right after NewBlockchain + Init (the jump, if one was interrupted or is due, is
\* carried out inside that call: the module is then done).
Reported(f) ==
    IF f.jst # "none" \/ f.atP THEN "done"
    ELSE IF ~f.hdrDone THEN "headers"
    ELSE IF ~f.trieDone THEN "mpt"
    ELSE IF ~f.blkDone THEN "blocks"
    ELSE "done"

\* height the node is at after that call
HeightAfter(f, p) ==
    IF f.jst # "none" \/ f.atP THEN p
    ELSE IF f.hdrDone /\ f.trieDone /\ f.blkDone THEN p   \* everything collected: the jump is performed now
    ELSE 0

Rank(s) == CASE s = "headers" -> 1 [] s = "mpt" -> 2 [] s = "blocks" -> 3 [] s = "jump" -> 4 [] s = "done" -> 5 [] OTHER -> 0

\* pinned behaviour of the tree this extension was built on (refuted by TLC as named deviations of the model,
\* exhibited by the real code): the traversal that rebuilds the pool panics on a trapped trie; a node stopped
\* between the last block and the jump declares itself done at height 0
PinnedPanic(f)  == f.jst = "none" /\ ~f.atP /\ f.hdrDone /\ f.trap
PinnedNoJump(f) == f.jst = "none" /\ ~f.atP /\ f.hdrDone /\ f.trieDone /\ f.blkDone
=============================================================================
