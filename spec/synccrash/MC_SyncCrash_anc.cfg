SPECIFICATION Spec
CONSTANTS
  Pos <- PA
  RootPos = "r"
  Kids <- KA
  Lab <- LA
  Order <- OA
  NH = 4
  SP = 2
  Win = 3
  PageSz = 2
  MaxCrash = 3
  MaxFlush = 5
  Dev <- None
INVARIANTS TypeOK NoCorruption Resumable CrashTransparent PoolSound Coherent StageFn
CHECK_DEADLOCK FALSE
