SPECIFICATION Spec
CONSTANTS
  Pos <- P8
  RootPos = "r"
  Kids <- K8
  Lab <- L8
  Order <- O8
  NH = 4
  SP = 2
  Win = 3
  PageSz = 2
  MaxCrash = 3
  MaxFlush = 5
  Dev <- None
INVARIANTS TypeOK NoCorruption Resumable CrashTransparent PoolSound Coherent StageFn
CHECK_DEADLOCK FALSE
