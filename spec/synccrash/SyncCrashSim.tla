---------------------------- MODULE SyncCrashSim ----------------------------
(* Delivery-schedule generator for harness/c02synccrash: behaviours of SyncCrash WITHOUT crashes (the driver crashes
   the real node at every batch the schedule makes it write) printed in the step vocabulary of the driver:
   headers (n parts of `of`), nodes (batch size, multiplier class, order), dup (the last batch again), blocks, flush. *)
EXTENDS MCSyncCrash, Json

CONSTANT Depth
VARIABLE hist

Orders == {"asc", "desc", "rnd"}
Step(op, n, of, big, order) == [op |-> op, n |-> n, of |-> of, big |-> big, order |-> order]

SimInit == Init /\ hist = <<>>
SimNext ==
    \/ Boot /\ UNCHANGED hist
    \/ \E k \in 1..NH : Headers(k) /\ hist' = Append(hist, Step("headers", k, NH, 0, "asc"))
    \/ \E B \in SUBSET Labels, o \in Orders, big \in 0..2 :
          Nodes(B) /\ hist' = Append(hist, Step("nodes", Cardinality(B), 0, big, o))
    \/ (Up /\ stage = "mpt" /\ UNCHANGED vars /\ hist' = Append(hist, Step("dup", 0, 0, 0, "asc")))
    \/ Block /\ hist' = Append(hist, Step("blocks", 1, Win, 0, "asc"))
    \/ JumpStep /\ UNCHANGED hist
    \/ \E i \in 1..(IF stage = "mpt" THEN 40 ELSE 4) : Flush /\ hist' = Append(hist, Step("flush", i, 0, 0, "asc"))   \* (weight of the flush among the successors)
SimSpec == SimInit /\ [][SimNext]_<<vars, hist>>
Emit == (Len(hist) # Depth /\ stage # "done") \/ hist = <<>> \/ PrintT(<<"@@HIST@@", ToJson(hist)>>)
=============================================================================
