----------------------------- MODULE MCNetSync -----------------------------
(* Universes of the exhaustive runs of NetSyncImpl. *)
EXTENDS NetSyncImpl

\* U1: one honest peer that has everything, one silent peer that advertises as much (it swallows chunks)
P2 == {"a", "b"}
K1 == [a |-> "honest", b |-> "silent"]
Has1 == [a |-> 1..N, b |-> {}]
Adv1 == [a |-> N, b |-> N]
G0 == [a |-> {}, b |-> {}]

\* U2: a garbage peer (refused blocks at two indexes for its first GMax answers, honest afterwards) and an honest one with a gap
K2 == [a |-> "garbage", b |-> "honest"]
Has2 == [a |-> 1..N, b |-> (1..N) \ {3}]
Adv2 == [a |-> N, b |-> N]
G2 == [a |-> {2, 3}, b |-> {}]

\* U3: two honest peers with complementary halves and a liar that advertises far more than anybody has
P3 == {"a", "b", "c"}
K3 == [a |-> "honest", b |-> "honest", c |-> "silent"]
Has3 == [a |-> 1..(N \div 2), b |-> ((N \div 2) + 1)..N, c |-> {}]
Adv3 == [a |-> N \div 2, b |-> N, c |-> N + 2 * Cap]
G3 == [a |-> {}, b |-> {}, c |-> {}]

NoConn == {}
=============================================================================
