SPECIFICATION SimSpec
CONSTANTS
  N = 6
  H0 = 1
  Cap = 4
  Chunk = 1
  Peers <- P3
  Kind <- K3
  Has <- Has3
  Adv <- Adv3
  GSet <- G3
  GMax = 1
  MaxPush = 3
  InitConn <- NoConn
  NoResetOnDrop = FALSE
  BugStartPlus2 = FALSE
  BugNoFallback = FALSE
  LazyRunner = FALSE
  NoRunnerStart = FALSE
  BugIgnoreBelowReq = FALSE
  Depth = 30
INVARIANT Emit
CHECK_DEADLOCK FALSE
