----------------------------- MODULE NetSyncImpl -----------------------------
(* IMPLEMENTATION-SHAPED model of the block synchronisation logic of pkg/network/server.go (+ the hand-over to
   pkg/network/bqueue/queue.go), one action per critical section:

     Tick(p)        requestBlocksOrHeaders(p) as called by StartProtocol (after the handshake and on every
                    ProtoTickInterval), handlePing and handlePong: requestBlocks -> getRequestBlocksPayload
                    (lastRequestedBlock bookkeeping: three branches) -> the LastQueued()/capLeft rewrite -> getblockbyindex
     TickRnd(p, i)  the third branch (random chunk i) of getRequestBlocksPayload
     Deliver(m)     handleBlockCmd -> bqueue.Put of one block message (window, "keep the old element", lastQ advance)
     Apply          one iteration of bqueue.Run: the element in the slot of h+1 goes to chain.AddItem; a failing element is
                    thrown away
     Connect / Drop / Push   the environment (peers come, silent peers go, anybody sends unsolicited blocks)

   Constants of the real code: Cap = bqueue.DefaultCacheSize = 2000, Chunk = payload.MaxHashesCount = 500; the model keeps
   the ratio Cap - Chunk ("old < currHeight + (DefaultCacheSize - MaxHashesCount)").

   Peers answer a request with the blocks they have in the requested range (honest), with nothing (silent), or - for the
   first GMax requests touching GSet - with blocks that the ledger refuses (garbage), one message at a time in any order.

   Named deviations (CONSTANT switches, all refuted by TLC - see MC_*.cfg):
     NoResetOnDrop       the behaviour PINNED in the tree before repair 093d8db: when the queue runner throws a refused element
                         away, lastQ stays ahead of it, requestBlocks keeps rewriting the request to lastQ+1.. and the block is
                         never asked for again (exhibited on the real server by this extension).  The model's default is the
                         repaired design: an element the ledger really refused (chain height below its index) pulls lastQ
                         back to index-1.
     NoRunnerStart       the behaviour PINNED before the second repair: in P2P state exchange nobody starts the runner of the
                         queue that handleBlockCmd fills (bSyncQueue.Run was only started by the NeoFS stage callback).  The
                         model's default is the repaired design: the first block command that finds the module collecting
                         blocks starts the runner (sync.Once).  LazyRunner = TRUE selects the state-exchange queue (runner not
                         started by Server.Start), FALSE the ordinary queue.
     BugStartPlus2       off-by-one in the first requested index
     BugNoFallback       a chunk handed to a peer that does not answer is never requested again (branch two keeps its old
                         start instead of falling back to height+1)
     BugIgnoreBelowReq   handleBlockCmd ignores blocks below lastRequestedBlock *)
EXTENDS Integers, FiniteSets, Sequences, TLC

CONSTANTS N, H0, Cap, Chunk, Peers, Kind, Has, Adv, GSet, GMax, MaxPush, InitConn,
          NoResetOnDrop, BugStartPlus2, BugNoFallback, BugIgnoreBelowReq, LazyRunner, NoRunnerStart

A == INSTANCE NetSync

VARIABLES h, lastReq, lastQ, slot, infl, gleft, conn, pushLeft, ledger, offered, running
vars == <<h, lastReq, lastQ, slot, infl, gleft, conn, pushLeft, ledger, offered, running>>

NoBlk == [k |-> 0, bad |-> FALSE]
Pos(k) == k % Cap
Responsive(p) == Kind[p] \in {"honest", "garbage"}
Occupied == {i \in 0..(Cap - 1) : slot[i] # NoBlk}
CapLeft == Cap - Cardinality(Occupied)
Min(a, b) == IF a < b THEN a ELSE b

Init == /\ h = H0 /\ lastReq = 0 /\ lastQ = 0
        /\ slot = [i \in 0..(Cap - 1) |-> NoBlk]
        /\ infl = {} /\ gleft = [p \in Peers |-> GMax]
        /\ conn = InitConn /\ pushLeft = MaxPush /\ ledger = <<>> /\ offered = {} /\ running = ~LazyRunner

(* ---------------------------------------------------------------- requests *)
\* what peer p sends back for the range start..start+count-1 (a set of block messages)
Answer(p, start, count) ==
    LET R == start..(start + count - 1)
        useG == Kind[p] = "garbage" /\ gleft[p] > 0 /\ (R \cap GSet[p]) # {}
    IN IF ~Responsive(p) THEN {}
       ELSE {[k |-> k, bad |-> TRUE] : k \in (IF useG THEN R \cap GSet[p] ELSE {})}
            \cup {[k |-> k, bad |-> FALSE] : k \in (R \cap Has[p]) \ (IF useG THEN GSet[p] ELSE {})}

UsesG(p, start, count) == Kind[p] = "garbage" /\ gleft[p] > 0 /\ ((start..(start + count - 1)) \cap GSet[p]) # {}

\* requestBlocks after getRequestBlocksPayload chose `need`
Send(p, need) ==
    IF CapLeft = 0 THEN UNCHANGED <<infl, gleft, offered>>
    ELSE LET nd == IF BugStartPlus2 THEN need + 1 ELSE need
             rew == lastQ >= nd
             start == IF rew THEN lastQ + 1 ELSE nd
             count == IF rew THEN Min(Chunk, CapLeft) ELSE Chunk
         IN /\ infl' = infl \cup Answer(p, start, count)
            /\ gleft' = IF UsesG(p, start, count) THEN [gleft EXCEPT ![p] = @ - 1] ELSE gleft
            /\ offered' = offered \cup {m.k : m \in {x \in Answer(p, start, count) : ~x.bad}}

Tick(p) ==
    /\ p \in conn /\ Adv[p] > h
    /\ \/ /\ lastReq <= h                                   \* branch one
          /\ lastReq' = h + 1
          /\ Send(p, h + 1)
       \/ /\ lastReq > h /\ lastReq < h + (Cap - Chunk)      \* branch two
          /\ IF Adv[p] > lastReq + Chunk
             THEN lastReq' = lastReq + Chunk /\ Send(p, lastReq + Chunk)
             ELSE lastReq' = lastReq /\ Send(p, IF BugNoFallback THEN lastReq ELSE h + 1)
    /\ UNCHANGED <<h, lastQ, slot, conn, pushLeft, ledger, running>>

TickRnd(p, i) ==                                            \* branch three: a random chunk of the window
    /\ p \in conn /\ Adv[p] > h
    /\ lastReq >= h + (Cap - Chunk) /\ lastReq > h
    /\ i \in 0..((Cap \div Chunk) - 1)
    /\ Send(p, h + 1 + i * Chunk)
    /\ UNCHANGED <<h, lastReq, lastQ, slot, conn, pushLeft, ledger, running>>

(* ---------------------------------------------------------------- queue *)
\* the lastQ scan of Put: starts at the slot just written and never wraps
RECURSIVE Scan(_, _, _)
Scan(s, lq, pos) == IF pos < Cap /\ s[pos] # NoBlk /\ s[pos].k = lq + 1 THEN Scan(s, lq + 1, pos + 1) ELSE lq

Put(m) ==
    IF m.k <= h \/ m.k > h + Cap \/ (BugIgnoreBelowReq /\ m.k < lastReq) THEN UNCHANGED <<slot, lastQ>>
    ELSE IF slot[Pos(m.k)] = NoBlk \/ slot[Pos(m.k)].k < m.k
         THEN LET s == [slot EXCEPT ![Pos(m.k)] = m]
              IN slot' = s /\ lastQ' = Scan(s, lastQ, Pos(m.k))
         ELSE UNCHANGED <<slot, lastQ>>

Deliver(m) ==
    /\ m \in infl
    /\ infl' = infl \ {m}
    /\ Put(m)
    /\ running' = (running \/ ~NoRunnerStart)          \* handleBlockCmd: bSyncQueueRun.Do(go bSyncQueue.Run)
    /\ UNCHANGED <<h, lastReq, gleft, conn, pushLeft, ledger, offered>>

Apply ==
    LET b == slot[Pos(h + 1)] IN
    /\ running /\ b # NoBlk
    /\ slot' = [slot EXCEPT ![Pos(h + 1)] = NoBlk]
    /\ IF b.k = h + 1 /\ ~b.bad
       THEN h' = h + 1 /\ ledger' = Append(ledger, b.k) /\ lastQ' = lastQ
       ELSE /\ h' = h /\ ledger' = ledger
            \* refused = the ledger said no and is still below the element (a stale element is merely thrown away)
            /\ lastQ' = IF ~NoResetOnDrop /\ b.k > h /\ lastQ >= b.k THEN b.k - 1 ELSE lastQ
    /\ UNCHANGED <<lastReq, infl, gleft, conn, pushLeft, offered, running>>

(* ---------------------------------------------------------------- environment *)
Connect(p) == /\ p \in Peers \ conn /\ conn' = conn \cup {p}
              /\ UNCHANGED <<h, lastReq, lastQ, slot, infl, gleft, pushLeft, ledger, offered, running>>
Drop(p)    == /\ p \in conn /\ ~Responsive(p) /\ conn' = conn \ {p}
              /\ UNCHANGED <<h, lastReq, lastQ, slot, infl, gleft, pushLeft, ledger, offered, running>>
Push(k, bad) == /\ pushLeft > 0 /\ k \in 1..N /\ pushLeft' = pushLeft - 1
                /\ infl' = infl \cup {[k |-> k, bad |-> bad]}
                /\ offered' = IF bad THEN offered ELSE offered \cup {k}
                /\ UNCHANGED <<h, lastReq, lastQ, slot, gleft, conn, ledger, running>>

Next == \/ \E p \in Peers : Tick(p) \/ Connect(p) \/ Drop(p)
        \/ \E p \in Peers, i \in 0..((Cap \div Chunk) - 1) : TickRnd(p, i)
        \/ \E m \in infl : Deliver(m)
        \/ Apply
        \/ \E k \in 1..N, bad \in BOOLEAN : Push(k, bad)

Fairness == /\ WF_vars(Apply)
            /\ \A k \in 1..(N + Cap), bad \in BOOLEAN : WF_vars(Deliver([k |-> k, bad |-> bad]))
            /\ \A p \in Peers : WF_vars(Tick(p)) /\ SF_vars(TickRnd(p, 0))
Spec == Init /\ [][Next]_vars /\ Fairness

(* ---------------------------------------------------------------- Impl => Abstract *)
Avail == UNION {Has[p] : p \in {q \in conn : Responsive(q)}}
TypeOK == /\ h \in H0..N /\ lastQ \in 0..(N + Cap) /\ lastReq \in 0..(N + 2 * Cap)
\* safety: the ledger's history is h0+1, h0+2, ... of offered blocks (InOrder, AtMostOnce, WasOffered, Genuine)
SafeLedger == /\ A!LegalLedger(H0, ledger, offered) /\ h = H0 + Len(ledger)
StepOK == [][h' # h => (A!InOrder(h, h') /\ A!AtMostOnce(h, h'))]_vars
\* liveness: the node ends at the highest contiguous block its connected responsive peers serve
Converges == <>[](A!Converged(h, H0, Avail))
=============================================================================
