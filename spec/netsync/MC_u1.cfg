SPECIFICATION Spec
CONSTANTS
  N = 6
  H0 = 0
  Cap = 4
  Chunk = 2
  Peers <- P2
  Kind <- K1
  Has <- Has1
  Adv <- Adv1
  GSet <- G0
  GMax = 1
  MaxPush = 1
  InitConn <- NoConn
  NoResetOnDrop = FALSE
  BugStartPlus2 = FALSE
  BugNoFallback = FALSE
  LazyRunner = FALSE
  NoRunnerStart = FALSE
  BugIgnoreBelowReq = FALSE
INVARIANTS TypeOK SafeLedger
PROPERTIES StepOK Converges
CHECK_DEADLOCK FALSE
