----------------------------- MODULE NetSyncSim -----------------------------
(* Behaviour generator: NetSyncImpl plus a history of what the ENVIRONMENT did (who connected when, who left, which blocks
   were sent unsolicited - valid or refused -, where a barrier was placed), interleaved by TLC with the node's own steps.
   Printed as JSON when the depth bound is reached (tlc -simulate).  The first entry is the universe, so that the harness can
   realise the peers; tools/checks/c20_net.py maps model block k to a range of real blocks (short worlds: a few blocks per
   unit; long worlds: one unit = hundreds of blocks, so that the real window of 2000 and the chunks of 500 bind). *)
EXTENDS MCNetSync, Json

CONSTANT Depth
VARIABLE hist

PeerRec(p) == [id |-> p, kind |-> Kind[p], has |-> Has[p], adv |-> Adv[p], g |-> GSet[p], gmax |-> GMax]
SimInit == Init /\ hist = << [op |-> "init", n |-> N, h0 |-> H0, cap |-> Cap, chunk |-> Chunk,
                              peers |-> [p \in Peers |-> PeerRec(p)], conn |-> InitConn] >>

Env == \/ \E p \in Peers : Connect(p) /\ hist' = Append(hist, [op |-> "connect", p |-> p, h |-> h])
       \/ \E p \in Peers : Drop(p) /\ hist' = Append(hist, [op |-> "drop", p |-> p, h |-> h])
       \/ \E k \in 1..N, bad \in BOOLEAN : Push(k, bad) /\ hist' = Append(hist, [op |-> IF bad THEN "gpush" ELSE "push", k |-> k, h |-> h])
       \/ UNCHANGED vars /\ hist[Len(hist)].op # "sync" /\ hist' = Append(hist, [op |-> "sync", h |-> h])
Node == /\ \/ \E p \in Peers : Tick(p)
           \/ \E p \in Peers, i \in 0..((Cap \div Chunk) - 1) : TickRnd(p, i)
           \/ \E m \in infl : Deliver(m)
           \/ Apply
        /\ hist' = hist
SimNext == Env \/ Node
SimSpec == SimInit /\ [][SimNext]_<<vars, hist>>

Emit == TLCGet("level") < Depth \/ PrintT(<<"@@HIST@@", ToJson([steps |-> hist, hend |-> h, target |-> A!Target(H0, Avail)])>>)
=============================================================================
