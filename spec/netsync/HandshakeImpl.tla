---------------------------- MODULE HandshakeImpl ----------------------------
(* IMPLEMENTATION-SHAPED model of the handshake code: the four flags of pkg/network/tcp_peer.go (versionSent,
   versionReceived, verAckSent, verAckReceived), the checks of HandleVersion / SendVersionAck / HandleVersionAck, the magic /
   nonce checks of Server.handleVersionCmd and handleMessage's admission of commands by state.  The peer's script grows by
   one symbol per step (every script up to MaxLen is a reachable state), the model records what the node sends back.

   Named deviations (refuted by TLC: MC_hs_*.cfg):
     BugVerackFirst    HandleVersionAck does not require versionReceived
     BugDupVersion     a second version is accepted (HandleVersion and SendVersionAck do not look at their flags)
     BugEarlyPayload   handleMessage processes payload commands of a peer that has not completed the handshake *)
EXTENDS Integers, Sequences, FiniteSets, TLC, Json

CONSTANTS MaxLen, BugVerackFirst, BugDupVersion, BugEarlyPayload, Dump

H == INSTANCE Handshake

VARIABLES script, vs, vr, as, ar, closed, closedAt, veracks, pongs, answers, taken, early
vars == <<script, vs, vr, as, ar, closed, closedAt, veracks, pongs, answers, taken, early>>

Init == /\ script = <<>> /\ vs = TRUE /\ vr = FALSE /\ as = FALSE /\ ar = FALSE      \* the version goes out when the connection is accepted
        /\ closed = FALSE /\ closedAt = 0 /\ veracks = 0 /\ pongs = 0 /\ answers = {} /\ taken = 0 /\ early = FALSE

Handshaked == vs /\ vr /\ as /\ ar
Close == closed' = TRUE /\ closedAt' = Len(script) + 1

Payload(m) == /\ pongs' = IF m = "P" THEN pongs + 1 ELSE pongs
              /\ answers' = IF m = "Q" THEN answers \cup {Len(script) + 1} ELSE answers
              /\ taken' = IF m = "B" THEN taken + 1 ELSE taken

Recv(m) ==
    /\ Len(script) < MaxLen
    /\ script' = Append(script, m)
    /\ IF closed THEN UNCHANGED <<vs, vr, as, ar, closed, closedAt, veracks, pongs, answers, taken, early>>
       ELSE IF Handshaked
       THEN IF m \in {"V", "Vm", "Vn", "A"}
            THEN Close /\ UNCHANGED <<vs, vr, as, ar, veracks, pongs, answers, taken, early>>
            ELSE Payload(m) /\ UNCHANGED <<vs, vr, as, ar, closed, closedAt, veracks, early>>
       ELSE CASE m \in {"V", "Vm", "Vn"} ->
                   IF vr /\ ~BugDupVersion                                   \* HandleVersion: already received Version
                   THEN Close /\ UNCHANGED <<vs, vr, as, ar, veracks, pongs, answers, taken, early>>
                   ELSE /\ vr' = TRUE
                        /\ IF m # "V"                                        \* errIdenticalID / errInvalidNetwork
                           THEN Close /\ UNCHANGED <<vs, as, ar, veracks, pongs, answers, taken, early>>
                           ELSE IF as /\ ~BugDupVersion                      \* SendVersionAck: already sent VersionAck
                                THEN Close /\ UNCHANGED <<vs, as, ar, veracks, pongs, answers, taken, early>>
                                ELSE /\ as' = TRUE /\ veracks' = veracks + 1
                                     /\ UNCHANGED <<vs, ar, closed, closedAt, pongs, answers, taken, early>>
              [] m = "A" ->
                   IF (~vr /\ ~BugVerackFirst) \/ ar                          \* HandleVersionAck
                   THEN Close /\ UNCHANGED <<vs, vr, as, ar, veracks, pongs, answers, taken, early>>
                   ELSE ar' = TRUE /\ UNCHANGED <<vs, vr, as, closed, closedAt, veracks, pongs, answers, taken, early>>
              [] OTHER ->
                   IF BugEarlyPayload
                   THEN Payload(m) /\ early' = TRUE /\ UNCHANGED <<vs, vr, as, ar, closed, closedAt, veracks>>
                   ELSE Close /\ UNCHANGED <<vs, vr, as, ar, veracks, pongs, answers, taken, early>>

Next == \E m \in H!Symbols : Recv(m)
Spec == Init /\ [][Next]_vars

\* the final identified request the harness adds after the script
FinalAnswered == ~closed /\ Handshaked

(* ---- Impl => Abstract ---- *)
AbsOK == /\ veracks > 0 => H!VerackOK(script)
         /\ H!VeracksOK(veracks)
         /\ (pongs > 0 \/ answers # {} \/ taken > 0) => H!PayloadOK(script)
         /\ \A q \in answers : H!AnswerOK(script, q)
         /\ H!PongsOK(script, pongs)
         /\ H!ClosedIfIllegal(script, FinalAnswered)
         /\ H!ConnectedOnlyIfLegal(script, FinalAnswered)
         /\ H!NoEffectUnlessConnected(script, taken)
\* the model and the abstract level agree exactly on when the connection dies (stronger than the judge needs: drift detector)
DeadAgrees == closed = H!AbsRun(script).dead /\ (closed => closedAt = H!AbsRun(script).deadAt)

\* enumeration: one case per script (= per reachable state)
Case == ~Dump \/ script = <<>> \/
        PrintT(<<"@@CASE@@", ToJson([script |-> script, closed |-> closed, closedAt |-> closedAt, veracks |-> veracks, pongs |-> pongs,
                                     answers |-> answers, taken |-> taken, final |-> FinalAnswered])>>)
=============================================================================
