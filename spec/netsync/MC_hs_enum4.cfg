SPECIFICATION Spec
CONSTANTS
  MaxLen = 4
  BugVerackFirst = FALSE
  BugDupVersion = FALSE
  BugEarlyPayload = FALSE
  Dump = TRUE
INVARIANTS AbsOK DeadAgrees Case
CHECK_DEADLOCK FALSE
