------------------------------ MODULE Handshake ------------------------------
(* ABSTRACT level of the connection handshake of the P2P server (what C20's "blocks arriving from the network" presupposes:
   the node acts only on what a properly connected peer sends).

     A peer becomes CONNECTED only after version and verack were exchanged in both directions in a legal order: the node
     sends its version, the peer sends ONE version (right network magic, a nonce that is not the node's own), the node
     answers it with ONE verack, the peer sends ONE verack after its version.  Any other command before that, a second
     version or verack, a verack before the version, a version with a foreign magic or with the node's own nonce make the
     node CLOSE the connection; after that nothing the peer sends is processed.

   The judge looks at one connection from the peer's side: the sequence of messages the peer sent (symbols below) and what
   it got back.  Symbols the peer sends:
       "V" good version    "Vm" version with a foreign magic    "Vn" version carrying the node's own nonce
       "A" verack          "P" ping (asks for a pong)          "Q" getblockbyindex for ONE block whose index identifies the
                                                                   request (position in the script)
       "B" the block after the node's tip (acts on the ledger if processed) *)
EXTENDS Integers, Sequences, FiniteSets

Symbols == {"V", "Vm", "Vn", "A", "P", "Q", "B"}

\* abstract connection state after a prefix of the peer's script
AbsInit == [v |-> FALSE, a |-> FALSE, dead |-> FALSE, deadAt |-> 0, legalP |-> 0, legalQ |-> {}, legalB |-> 0, illegalB |-> 0, n |-> 0]

Connected(s) == s.v /\ s.a /\ ~s.dead

LegalMsg(s, m) == CASE m = "V" -> ~s.v /\ ~s.a
                    [] m = "A" -> s.v /\ ~s.a
                    [] m \in {"P", "Q", "B"} -> s.v /\ s.a
                    [] OTHER -> FALSE                     \* Vm, Vn

AbsStep(s, m) ==
    LET t == [s EXCEPT !.n = @ + 1] IN
    IF s.dead THEN [t EXCEPT !.illegalB = IF m = "B" THEN @ + 1 ELSE @]
    ELSE IF ~LegalMsg(s, m) THEN [t EXCEPT !.dead = TRUE, !.deadAt = t.n, !.illegalB = IF m = "B" THEN @ + 1 ELSE @]
    ELSE CASE m = "V" -> [t EXCEPT !.v = TRUE]
           [] m = "A" -> [t EXCEPT !.a = TRUE]
           [] m = "P" -> [t EXCEPT !.legalP = @ + 1]
           [] m = "Q" -> [t EXCEPT !.legalQ = @ \cup {t.n}]
           [] m = "B" -> [t EXCEPT !.legalB = @ + 1]

RECURSIVE AbsRun(_)
AbsRun(script) == IF script = <<>> THEN AbsInit ELSE AbsStep(AbsRun(SubSeq(script, 1, Len(script) - 1)), script[Len(script)])

(* ---- what the node may do, given the script sent SO FAR (sent = prefix already written to the socket) ---- *)
\* the node's verack answers a good first version
VerackOK(sent)         == \E i \in 1..Len(sent) : sent[i] = "V" /\ AbsRun(SubSeq(sent, 1, i)).v /\ ~AbsRun(SubSeq(sent, 1, i)).dead
\* any payload command from the node (pong, data, its own requests, pings, inventories) presupposes a completed handshake
PayloadOK(sent)        == \E i \in 1..Len(sent) : Connected(AbsRun(SubSeq(sent, 1, i)))
\* the answer to the request at position q presupposes that this request was legal
AnswerOK(sent, q)      == q \in AbsRun(sent).legalQ
PongsOK(sent, npongs)  == npongs <= AbsRun(sent).legalP
VeracksOK(nveracks)    == nveracks <= 1
(* ---- at the end of the connection (the peer has sent `script`, then one final identified request) ---- *)
\* an illegal sequence is closed: the final request is not answered
ClosedIfIllegal(script, finalAnswered) == AbsRun(script).dead => ~finalAnswered
\* connected only after a legal exchange
ConnectedOnlyIfLegal(script, finalAnswered) == finalAnswered => Connected(AbsRun(script))
\* a block sent while not connected never reaches the queue or the ledger
NoEffectUnlessConnected(script, blocksTaken) == blocksTaken <= AbsRun(script).legalB
=============================================================================
