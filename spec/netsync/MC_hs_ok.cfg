SPECIFICATION Spec
CONSTANTS
  MaxLen = 6
  BugVerackFirst = FALSE
  BugDupVersion = FALSE
  BugEarlyPayload = FALSE
  Dump = FALSE
INVARIANTS AbsOK DeadAgrees Case
CHECK_DEADLOCK FALSE
