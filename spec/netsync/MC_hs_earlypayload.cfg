SPECIFICATION Spec
CONSTANTS
  MaxLen = 5
  BugVerackFirst = FALSE
  BugDupVersion = FALSE
  BugEarlyPayload = TRUE
  Dump = FALSE
INVARIANTS AbsOK
CHECK_DEADLOCK FALSE
