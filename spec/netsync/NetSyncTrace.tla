---------------------------- MODULE NetSyncTrace ----------------------------
(* Judges runs recorded from the REAL network.Server (started, on a real chain, fake peers over TCP loopback) against the
   ABSTRACT module NetSync.  One scenario = init ... end.  Events (every event of a peer carries p = its id; 0 = the observer
   connection, -1 = the node's own process):
     init   h0, cap, chunk, n (length of the source chain), peers [{id, kind, has (ranges), adv, g (ranges), gmax}],
            gidx (ranges: every index at which the script sends refused blocks)
     conn   the handshake with peer p completed          close  the connection of p ended (by = node | peer); a responsive
            peer that the NODE dropped still counts as a source of blocks (it reconnects, as discovery would bring it back)
     req    the node's request as peer p received it (cmd, start, count | idx)
     srv    what p answers: v = ranges of genuine blocks, g = ranges of refused blocks
     push   blocks sent unsolicited (via block | getdata | local = Server.GetBlockQueue().Put | direct = AddBlock), g = refused
     sync   ping/pong round trip on p completed: everything p sent before has been processed; h = height in the pong
     jump   (state-exchange scenarios) the ledger's first notification is for block to+1: the node adopted the state at `to`
     acc    the ledger accepted blocks from..to (its own notification order); ok = they are the source chain's blocks
     end    h = the ledger's height, outcome = converged | stall (a stall is declared by protocol: >= 40 complete ping rounds on
            every connection, several seconds and hundreds of timer periods without a change), exp = the driver's target,
            tipok / rootok = tip hash and state root equal the source chain's at that height, lastq / capleft = LastQueued()
   Names starting with "i:" are informational (Impl level: drift), names starting with "x:" denote an inconsistency of the
   harness (inconclusive), everything else is a verdict of the abstract level. *)
EXTENDS TraceIO, FiniteSets, SequencesExt

VARIABLES l, h0, cap, h, offered, garb, pushed, has, alive, hlow, cover, nreq, ssp, reach
vars == <<l, h0, cap, h, offered, garb, pushed, has, alive, hlow, cover, nreq, ssp, reach>>

M == INSTANCE NetSync

RS(rs) == M!RangesToSet({<<r[1], r[2]>> : r \in ToSet(rs)})
Resp(k) == k \in {"honest", "garbage"}

Init == /\ l = 1 /\ h0 = 0 /\ cap = 0 /\ h = 0 /\ offered = {} /\ garb = {} /\ pushed = {} /\ has = <<>> /\ alive = {}
        /\ hlow = <<>> /\ cover = 0 /\ nreq = 0 /\ ssp = 0 /\ reach = 0

Avail == UNION {has[p] : p \in (alive \cap DOMAIN has)} \cup (pushed \ garb)

Step ==
    /\ l <= Len(TLog)
    /\ l' = l + 1
    /\ LET e == TLog[l] IN
       CASE e.event = "init" ->
              /\ h0' = e.h0 /\ cap' = e.cap /\ h' = e.h0 /\ offered' = {} /\ garb' = RS(e.gidx) /\ pushed' = {}
              /\ has' = [p \in {q.id : q \in {x \in ToSet(e.peers) : Resp(x.kind)}} |->
                            RS((CHOOSE x \in ToSet(e.peers) : x.id = p).has)]
              /\ alive' = {} /\ hlow' = [p \in {q.id : q \in ToSet(e.peers)} \cup {0} |-> e.h0] /\ cover' = 0 /\ nreq' = 0
              /\ ssp' = (IF "ssp" \in DOMAIN e THEN e.ssp ELSE 0) /\ reach' = e.h0
         [] e.event = "conn" -> alive' = alive \cup {e.p} /\ UNCHANGED <<h0, cap, h, offered, garb, pushed, has, hlow, cover, nreq, ssp, reach>>
         [] e.event = "close" -> alive' = (IF e.by = "peer" THEN alive \ {e.p} ELSE alive) /\ UNCHANGED <<h0, cap, h, offered, garb, pushed, has, hlow, cover, nreq, ssp, reach>>
         [] e.event = "srv" ->
              /\ offered' = offered \cup RS(e.v) /\ garb' = garb \cup RS(e.g)
              /\ reach' = M!ContigFrom(reach, offered')
              /\ UNCHANGED <<h0, cap, h, pushed, has, alive, hlow, cover, nreq, ssp>>
         [] e.event = "push" ->
              /\ IF e.g THEN garb' = garb \cup ToSet(e.blocks) /\ UNCHANGED <<offered, pushed, reach>>
                 ELSE /\ offered' = offered \cup ToSet(e.blocks) /\ garb' = garb
                      /\ pushed' = pushed \cup {k \in ToSet(e.blocks) : k <= h0 + cap}
                      /\ reach' = M!ContigFrom(reach, offered')
              /\ UNCHANGED <<h0, cap, h, has, alive, hlow, cover, nreq, ssp>>
         [] e.event = "sync" ->
              /\ hlow' = [hlow EXCEPT ![e.p] = e.h]
              /\ UNCHANGED <<h0, cap, h, offered, garb, pushed, has, alive, cover, nreq, ssp, reach>>
         [] e.event = "req" ->
              /\ IF e.cmd = "getblockbyindex"
                 THEN LET cnt == IF e.count < 0 THEN 500 ELSE e.count IN
                      /\ cover' = IF e.start <= h + 1 /\ h + 1 < e.start + cnt THEN cover + e.rep ELSE cover
                      /\ nreq' = nreq + e.rep
                      /\ Report(l, NameIf(e.start > hlow[e.p], "i:ReqBehind") \cup NameIf(e.start <= reach + cap, "i:ReqBeyondWindow"),
                                [ev |-> e, hlow |-> hlow[e.p], ledger |-> h])
                 ELSE UNCHANGED <<cover, nreq>>
              /\ UNCHANGED <<h0, cap, h, offered, garb, pushed, has, alive, hlow, ssp, reach>>
         [] e.event = "acc" ->
              /\ Report(l, NameIf(M!InOrder(h, e.from), "InOrder") \cup NameIf(M!AtMostOnce(h, e.from), "AtMostOnce")
                           \cup NameIf(M!Genuine(e.ok), "GarbageAccepted")
                           \cup NameIf((e.from..e.to) \subseteq offered, "x:NotOffered"),
                        [ev |-> e, ledger |-> h])
              /\ h' = e.to /\ cover' = 0 /\ nreq' = 0
              /\ UNCHANGED <<h0, cap, offered, garb, pushed, has, alive, hlow, ssp, reach>>
         [] e.event = "jump" ->
              \* state-exchange scenarios: the node adopted the state of the synchronisation point (ssp = the last multiple of the
              \* interval not above the height its peers advertise) and goes on from there
              /\ Report(l, NameIf(ssp > 0 /\ e.to = ssp /\ h = h0, "WrongSyncPoint"), [ev |-> e, expected |-> ssp])
              /\ h' = e.to /\ cover' = 0 /\ nreq' = 0 /\ reach' = IF e.to > reach THEN M!ContigFrom(e.to, offered) ELSE reach
              /\ UNCHANGED <<h0, cap, offered, garb, pushed, has, alive, hlow, ssp>>
         [] e.event = "end" ->
              /\ LET T == M!Target(h0, Avail) IN
                 Report(l, NameIf(M!Converged(e.h, h0, Avail), IF cover = 0 THEN "Stalled" ELSE "NotConverged")
                           \cup NameIf(e.tipok /\ e.rootok, "GarbageAccepted")
                           \cup NameIf(e.h = h, "x:LedgerCount") \cup NameIf(e.exp = T, "x:TargetMismatch")
                           \cup NameIf(e.outcome = "converged" \/ e.h < T, "x:StallAboveTarget"),
                        [ev |-> e, target |-> T, covering_requests |-> cover, requests_since_last_block |-> nreq,
                         refused_below_lastq |-> (\E k \in garb : e.h < k /\ k <= e.lastq), lastq_ahead |-> (e.lastq > e.h),
                         next_offered |-> ((e.modh + 1) \in offered)])
              /\ UNCHANGED <<h0, cap, h, offered, garb, pushed, has, alive, hlow, cover, nreq, ssp, reach>>
         [] OTHER -> UNCHANGED <<h0, cap, h, offered, garb, pushed, has, alive, hlow, cover, nreq, ssp, reach>>

TraceSpec == Init /\ [][Step]_vars
=============================================================================
