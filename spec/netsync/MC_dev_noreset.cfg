SPECIFICATION Spec
CONSTANTS
  N = 5
  H0 = 0
  Cap = 4
  Chunk = 2
  Peers <- P2
  Kind <- K2
  Has <- Has2
  Adv <- Adv2
  GSet <- G2
  GMax = 1
  MaxPush = 0
  InitConn <- P2
  NoResetOnDrop = TRUE
  BugStartPlus2 = FALSE
  BugNoFallback = FALSE
  LazyRunner = FALSE
  NoRunnerStart = FALSE
  BugIgnoreBelowReq = FALSE
INVARIANTS TypeOK SafeLedger
PROPERTIES StepOK Converges
CHECK_DEADLOCK FALSE
