SPECIFICATION Spec
CONSTANTS
  MaxLen = 5
  BugVerackFirst = TRUE
  BugDupVersion = FALSE
  BugEarlyPayload = FALSE
  Dump = FALSE
INVARIANTS AbsOK
CHECK_DEADLOCK FALSE
