--------------------------- MODULE HandshakeTrace ---------------------------
(* Judges connections recorded from the REAL server (one case = one TCP connection of a fake peer) against the ABSTRACT
   module Handshake.  Events of a case:
     hsinit  script = the symbols the peer is going to send, pred = what HandshakeImpl predicts (compared by the runner: drift)
     s       the peer sends the next symbol of its script (logged before the bytes are written)
     r       the peer received a message of the node: m = version | verack | pong | block (i = its index: the answer to the
             request sent at script position i, 50 = the final request) | other (cmd: a command the node sends on its own)
     hsend   closed = the node closed the connection (EOF) before answering the final request, final = the final request was
             answered, taken = number of blocks of this connection that reached the node's queue or ledger *)
EXTENDS TraceIO, FiniteSets, SequencesExt

VARIABLES l, script, sent, veracks, pongs
vars == <<l, script, sent, veracks, pongs>>

H == INSTANCE Handshake

Init == l = 1 /\ script = <<>> /\ sent = <<>> /\ veracks = 0 /\ pongs = 0

Step ==
    /\ l <= Len(TLog)
    /\ l' = l + 1
    /\ LET e == TLog[l] IN
       CASE e.event = "hsinit" -> script' = e.script /\ sent' = <<>> /\ veracks' = 0 /\ pongs' = 0
         [] e.event = "s" -> sent' = Append(sent, e.m) /\ UNCHANGED <<script, veracks, pongs>>
         [] e.event = "r" ->
              /\ veracks' = IF e.m = "verack" THEN veracks + 1 ELSE veracks
              /\ pongs' = IF e.m = "pong" THEN pongs + 1 ELSE pongs
              /\ Report(l, CASE e.m = "verack" -> NameIf(H!VerackOK(sent), "VerackWithoutVersion") \cup NameIf(H!VeracksOK(veracks + 1), "SecondVerack")
                             [] e.m = "pong" -> NameIf(H!PayloadOK(sent), "PayloadBeforeHandshake") \cup NameIf(H!PongsOK(sent, pongs + 1), "IllegalPingAnswered")
                             [] e.m = "block" -> NameIf(H!PayloadOK(sent), "PayloadBeforeHandshake")
                                                 \cup NameIf(e.i = 50 \/ H!AnswerOK(sent, e.i), "IllegalRequestAnswered")
                             [] e.m = "other" -> NameIf(H!PayloadOK(sent), "PayloadBeforeHandshake")
                             [] OTHER -> {},
                        [ev |-> e, sent |-> sent, script |-> script])
              /\ UNCHANGED <<script, sent>>
         [] e.event = "hsend" ->
              /\ Report(l, NameIf(H!ClosedIfIllegal(script, e.final), "IllegalNotClosed")
                           \cup NameIf(H!ConnectedOnlyIfLegal(script, e.final), "ConnectedWithoutHandshake")
                           \cup NameIf(H!NoEffectUnlessConnected(script, e.taken), "ActedBeforeHandshake")
                           \cup NameIf(sent = script, "x:ScriptNotSent")
                           \cup NameIf(e.final \/ e.closed, "x:NoOutcome")
                           \cup NameIf(H!Connected(H!AbsRun(script)) => e.final, "i:ClosedThoughLegal"),
                        [ev |-> e, script |-> script])
              /\ UNCHANGED <<script, sent, veracks, pongs>>
         [] OTHER -> UNCHANGED <<script, sent, veracks, pongs>>

TraceSpec == Init /\ [][Step]_vars
=============================================================================
