SPECIFICATION Spec
CONSTANTS
  N = 4
  H0 = 0
  Cap = 6
  Chunk = 2
  Peers <- P2
  Kind <- K1
  Has <- Has1
  Adv <- Adv1
  GSet <- G0
  GMax = 1
  MaxPush = 0
  InitConn <- P2
  NoResetOnDrop = FALSE
  BugStartPlus2 = FALSE
  BugNoFallback = FALSE
  LazyRunner = TRUE
  NoRunnerStart = TRUE
  BugIgnoreBelowReq = FALSE
INVARIANTS TypeOK SafeLedger
PROPERTIES StepOK Converges
CHECK_DEADLOCK FALSE
