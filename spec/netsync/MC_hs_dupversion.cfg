SPECIFICATION Spec
CONSTANTS
  MaxLen = 5
  BugVerackFirst = FALSE
  BugDupVersion = TRUE
  BugEarlyPayload = FALSE
  Dump = FALSE
INVARIANTS AbsOK
CHECK_DEADLOCK FALSE
