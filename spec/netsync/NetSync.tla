------------------------------- MODULE NetSync -------------------------------
(* ABSTRACT level (the judge) of the P2P block-fetch part of property C20:

     "Blocks arriving from the network and from consensus in any order, duplicated or far ahead of the tip, are applied
      to the ledger strictly in index order and each at most once, and the node reaches the highest contiguous block it
      was given."  -  read for a node that PULLS blocks from its peers:  if some connected peer can serve block h+1 ...
      the node keeps requesting until it has the highest contiguous block available from its peers; a peer that answers
      nothing or answers garbage does not stop progress with the other peers; garbage is refused without corrupting the
      chain.

   The module is a set of predicates over what an observer of the node sees (the order in which the ledger accepts
   blocks, what the peers offered, where the node ends); it says nothing about HOW the node asks (that is NetSyncImpl).
   It is instantiated by NetSyncImpl (TLC checks Impl => Abstract) and by NetSyncTrace (TLC judges recorded runs of the
   real network.Server). *)
EXTENDS Integers, FiniteSets, Sequences

\* a set of closed index ranges <<a, b>> as a set of indexes
RangesToSet(rs) == UNION { r[1]..r[2] : r \in rs }

\* highest block reachable from h through consecutive members of S
RECURSIVE ContigFrom(_, _)
ContigFrom(h, S) == IF (h + 1) \in S THEN ContigFrom(h + 1, S) ELSE h

(* ---- one block accepted by the ledger while the ledger is at height h ---- *)
InOrder(h, k)      == k <= h + 1          \* never a block beyond the next one
AtMostOnce(h, k)   == k > h               \* never a block the ledger already has
Genuine(ok)        == ok                  \* the accepted block is the source chain's block of that index (garbage refused)
WasOffered(k, off) == k \in off           \* somebody gave this block to the node before the ledger accepted it

(* ---- where the node has to end ----
   avail : blocks that connected, responsive peers serve on request, plus valid blocks that were really delivered inside
           the queue window at indexes where nobody sent garbage *)
Target(h0, avail)       == ContigFrom(h0, avail)
Converged(h, h0, avail) == h >= Target(h0, avail)

(* ---- the abstract machine (used for the refinement check of NetSyncImpl) ---- *)
\* a ledger history is legal iff it is h0+1, h0+2, ... and every element was offered
LegalLedger(h0, led, off) == /\ \A i \in 1..Len(led) : led[i] = h0 + i
                             /\ \A i \in 1..Len(led) : led[i] \in off
=============================================================================
