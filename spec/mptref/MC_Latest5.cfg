SPECIFICATION Spec
CONSTANTS
  Keys <- K4
  Vals <- V2
  GCMode = FALSE
  MaxH = 5
  MaxDrop = 0
  MaxCh = 2
  DropShares = FALSE
  BugGC = FALSE
  BugStale = FALSE
INVARIANTS AbsInv NoPanic CacheExact ModuleTrieIsLatest
VIEW MCView
CHECK_DEADLOCK FALSE
