SPECIFICATION SimSpec
CONSTANTS
  Keys <- K4
  Vals <- V2
  GCMode = FALSE
  MaxH = 12
  MaxDrop = 2
  MaxCh = 3
  DropShares = FALSE
  BugGC = FALSE
  BugStale = FALSE
  Depth = 12
INVARIANT Emit
CHECK_DEADLOCK FALSE
