SPECIFICATION SimSpec
CONSTANTS
  Keys <- K3
  Vals <- V2
  GCMode = TRUE
  MaxH = 12
  MaxDrop = 0
  MaxCh = 3
  DropShares = FALSE
  BugGC = FALSE
  BugStale = FALSE
  Depth = 12
INVARIANT Emit
CHECK_DEADLOCK FALSE
