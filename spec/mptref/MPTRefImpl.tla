----------------------------- MODULE MPTRefImpl -----------------------------
(***************************************************************************)
(* Implementation-shaped model of what a block does to the node table      *)
(* (C11): mpt.Trie.Flush / updateRefCount with the refcount cache that is  *)
(* SHARED between the per-block copies of the trie                         *)
(* (stateroot.Module.AddMPTBatch copies the Trie struct), Collapse,        *)
(* the write cache over the backend, and stateroot.Module.GC which works   *)
(* on the backend only.  TLC checks the abstract predicates of MPTRef on   *)
(* every reachable state (Impl => Abstract).                               *)
(*                                                                         *)
(* Nodes are content addressed: the identifier of a node is a string that  *)
(* spells its structure (an injective "hash").  Tries are the canonical    *)
(* tries of a tiny universe: keys are nibble paths, equal values under     *)
(* different keys share a leaf, equal sub-tries share their nodes.         *)
(*                                                                         *)
(* What is NOT modelled here but assumed: that addRef / removeRef leave in *)
(* the cache, for every node, delta = occurrences in the new trie minus    *)
(* occurrences in the old one.  That assumption is exactly what the table  *)
(* validation (MPTRefTrace on dumps of the real store) establishes.        *)
(*                                                                         *)
(* Named deviations (constants):                                           *)
(*   DropShares  a computed-but-never-committed block leaves its traces in *)
(*               the shared refcount cache and in the in-memory nodes the  *)
(*               copies share (what happens when the results of            *)
(*               AddMPTBatch are simply not applied); FALSE = a dropped    *)
(*               block leaves no trace (what the property needs).  Whether *)
(*               the code behaves like TRUE or FALSE is decided by the     *)
(*               binding, not here.  (The in-place modification of stored  *)
(*               byte slices found on the real code is a third channel     *)
(*               that this model does not have.)                           *)
(*   BugGC       GC(G) also removes records that became inactive at G+1    *)
(*   BugStale    Flush does not read the stored count of a node that is    *)
(*               not in the cache (starts from 0)                          *)
(***************************************************************************)
EXTENDS Integers, Sequences, FiniteSets, FiniteSetsExt, TLC

CONSTANTS Keys,        \* set of nibble paths
          Vals,        \* set of value strings
          GCMode,      \* TRUE = ModeGC, FALSE = ModeLatest
          MaxH,        \* number of committed blocks explored
          MaxDrop,     \* number of dropped blocks explored
          MaxCh,       \* size of a change batch
          DropShares, BugGC, BugStale

M == INSTANCE MPTRef

(***************************************************************************)
(* Canonical tries of the universe                                         *)
(***************************************************************************)
Nib == <<"0", "1", "2", "3", "4", "5", "6", "7", "8", "9", "a", "b", "c", "d", "e", "f">>
RECURSIVE PathStr(_)
PathStr(p) == IF p = <<>> THEN "" ELSE Nib[Head(p) + 1] \o PathStr(Tail(p))

Drop(p, n) == SubSeq(p, n + 1, Len(p))
IsPrefix(q, p) == Len(q) <= Len(p) /\ SubSeq(p, 1, Len(q)) = q
\* longest common prefix of a non-empty set of paths
LCP(ps) == LET one == CHOOSE p \in ps : TRUE
               ns  == {n \in 0..Len(one) : \A p \in ps : IsPrefix(SubSeq(one, 1, n), p)}
           IN  SubSeq(one, 1, Max(ns))

LeafId(v)  == "L" \o v
LeafReg(v) == LeafId(v) :> [kind |-> "L", kids |-> <<>>, path |-> <<>>, val |-> v, slots |-> <<>>]
ExtId(p, child) == "E" \o PathStr(p) \o "(" \o child \o ")"
ExtReg(p, child) == ExtId(p, child) :> [kind |-> "E", kids |-> <<child>>, path |-> p, val |-> "", slots |-> <<>>]

RECURSIVE BranchStr(_, _)
BranchStr(slots, i) == IF i > 17 THEN "" ELSE (IF slots[i] = "" THEN "." ELSE "<" \o slots[i] \o ">") \o BranchStr(slots, i + 1)

\* Build(c): c a non-empty function from paths to values; result [id, reg]
RECURSIVE Build(_)
Build(c) ==
    LET ks == DOMAIN c IN
    IF Cardinality(ks) = 1 THEN
        LET p == CHOOSE q \in ks : TRUE IN
        IF p = <<>> THEN [id |-> LeafId(c[p]), reg |-> LeafReg(c[p])]
        ELSE [id |-> ExtId(p, LeafId(c[p])), reg |-> ExtReg(p, LeafId(c[p])) @@ LeafReg(c[p])]
    ELSE
        LET pre == LCP(ks) IN
        IF pre # <<>> THEN
            LET sub == Build([q \in {Drop(p, Len(pre)) : p \in ks} |-> c[pre \o q]])
            IN  [id |-> ExtId(pre, sub.id), reg |-> ExtReg(pre, sub.id) @@ sub.reg]
        ELSE
            LET under(i) == {p \in ks : p # <<>> /\ Head(p) = i}
                sub(i)   == IF i = 16
                              THEN (IF <<>> \in ks THEN [id |-> LeafId(c[<<>>]), reg |-> LeafReg(c[<<>>])]
                                    ELSE [id |-> "", reg |-> <<>>])
                              ELSE (IF under(i) = {} THEN [id |-> "", reg |-> <<>>]
                                    ELSE Build([q \in {Tail(p) : p \in under(i)} |-> c[<<i>> \o q]]))
                subs     == [i \in 1..17 |-> sub(i - 1)]
                slots    == [i \in 1..17 |-> subs[i].id]
                bid      == "B" \o BranchStr(slots, 1)
                regs     == FoldSet(LAMBDA i, a : subs[i].reg @@ a, <<>>, 1..17)
            IN  [id |-> bid,
                 reg |-> (bid :> [kind |-> "B", kids |-> SelectSeq(slots, LAMBDA s : s # ""), path |-> <<>>, val |-> "",
                                  slots |-> slots]) @@ regs]

Contents == UNION {[S -> Vals] : S \in SUBSET Keys}
TrieOf  == [c \in Contents |-> IF DOMAIN c = {} THEN [id |-> M!NoRoot, reg |-> <<>>] ELSE Build(c)]
\* The tables of the universe are computed once, at start-up, and kept in a TLC register (TLC does not
\* memoise definitions built on RECURSIVE operators; TLCEval normalises the lazily represented functions).
Universe ==
    LET rootOf == TLCEval([c \in Contents |-> TrieOf[c].id])
        reg    == TLCEval(FoldSet(LAMBDA c, a : TrieOf[c].reg @@ a, <<>>, Contents))      \* every node of the universe
        regTbl == TLCEval([n \in DOMAIN reg |-> [kids |-> reg[n].kids, count |-> 0, active |-> TRUE, since |-> 0, ok |-> TRUE]])
    IN  [root |-> rootOf, reg |-> reg,
         occ  |-> TLCEval([c \in Contents |-> TLCEval(M!Occ(regTbl, rootOf[c]))]),       \* occurrence bag of every trie
         none |-> CHOOSE c \in Contents : DOMAIN c = {}]
UnivReg == 11
ASSUME TLCSet(UnivReg, Universe)
univ   == TLCGet(UnivReg)
RootOf == univ.root
Reg    == univ.reg
OccOf  == univ.occ
NoContent == univ.none

(***************************************************************************)
(* State                                                                   *)
(***************************************************************************)
VARIABLES disk,      \* backend: node -> [count, active, since]
          top,       \* write cache over the backend: node -> record or Tomb
          cache,     \* the shared refcount cache: node -> cached stored count ("initial", never 0)
          trieC,     \* content of the module's in-memory trie
          expanded,  \* the module's trie has in-memory (non hash) nodes
          latestC,   \* content of the latest committed state
          height, roots, contAt, G, drops, deadAt, panic, last
vars == <<disk, top, cache, trieC, expanded, latestC, height, roots, contAt, G, drops, deadAt, panic, last>>

Tomb == [count |-> 0, active |-> FALSE, since |-> -1]      \* a deletion waiting in the write cache

View(t, d) == [n \in {m \in DOMAIN t \cup DOMAIN d : (m \in DOMAIN t => t[m] # Tomb)} |->
                  IF n \in DOMAIN t THEN t[n] ELSE d[n]]
Tbl(v) == [n \in DOMAIN v |-> [kids |-> Reg[n].kids, count |-> v[n].count, active |-> v[n].active,
                               since |-> v[n].since, ok |-> TRUE]]

Init == /\ disk = <<>> /\ top = <<>> /\ cache = <<>> /\ trieC = NoContent /\ expanded = FALSE
        /\ latestC = NoContent /\ height = 0 /\ roots = (0 :> M!NoRoot) /\ contAt = (0 :> NoContent)
        /\ G = 0 /\ drops = 0 /\ deadAt = <<>> /\ panic = FALSE /\ last = [op |-> "init"]

Del == "-"
Batches == UNION {[S -> Vals \cup {Del}] : S \in {T \in SUBSET Keys : T # {} /\ Cardinality(T) <= MaxCh}}
ApplyCh(c, ch) == [k \in (DOMAIN c \ DOMAIN ch) \cup {x \in DOMAIN ch : ch[x] # Del} |->
                      IF k \in DOMAIN ch THEN ch[k] ELSE c[k]]

BagAt(b, n) == IF n \in DOMAIN b THEN b[n] ELSE 0
\* Collapse: none, to a depth that leaves in-memory nodes (the cache is cleared), or to hash nodes only;
\* whether in-memory nodes remain only matters when dropped blocks share them
Collapses == IF DropShares THEN {"none", "deep", "full"} ELSE {"none", "full"}

(***************************************************************************)
(* One block: PutBatch + Flush(index) on a copy of the module's trie that  *)
(* writes into a private layer, optional Collapse, then either the commit  *)
(* (layer merged into the write cache, module switched to the copy) or     *)
(* nothing (the block is dropped).                                         *)
(***************************************************************************)
\* stored count a Flush starts from (trie.go updateRefCount): the cached one, else the store's
\* (readers in GC mode do not see inactive records)
StartCount(v, n) ==
    IF n \in DOMAIN cache THEN cache[n]
    ELSE IF BugStale THEN 0
    ELSE IF n \in DOMAIN v /\ (GCMode => v[n].active) THEN v[n].count ELSE 0

\* (the \E x \in {e} bindings make TLC evaluate e once: LET definitions are re-evaluated at every use inside actions)
Block(v, ch) ==
    \E index \in {height + 1}, newC \in {ApplyCh(trieC, ch)} :
    \E oldOcc \in {OccOf[trieC]}, newOcc \in {OccOf[newC]} :
    \E dirty \in {{n \in DOMAIN oldOcc \cup DOMAIN newOcc : BagAt(newOcc, n) # BagAt(oldOcc, n)}} :
    \E cnt \in {[n \in dirty |-> StartCount(v, n) + BagAt(newOcc, n) - BagAt(oldOcc, n)]} :
    \E wr \in {[n \in dirty |-> IF cnt[n] > 0 THEN [count |-> cnt[n], active |-> TRUE, since |-> 0]
                                 ELSE IF GCMode THEN [count |-> 0, active |-> FALSE, since |-> index] ELSE Tomb]} :
    \E cache1 \in {[n \in (DOMAIN cache \ dirty) \cup {m \in dirty : cnt[m] > 0} |-> IF n \in dirty THEN cnt[n] ELSE cache[n]]} :
    \E died \in {DOMAIN OccOf[latestC] \ DOMAIN newOcc} :
    \E commit \in BOOLEAN, collapse \in Collapses :
    LET neg    == \E n \in dirty : cnt[n] < 0
        cache2 == IF collapse # "none" THEN <<>> ELSE cache1
        exp2   == collapse # "full"
    IN  /\ ~panic
        /\ height < MaxH
        /\ IF neg THEN
              \* "negative reference count" panic of updateRefCount
              /\ panic' = TRUE
              /\ UNCHANGED <<disk, top, cache, trieC, expanded, latestC, height, roots, contAt, G, drops, deadAt>>
           ELSE IF commit THEN
              /\ top' = wr @@ top
              /\ cache' = cache2 /\ trieC' = newC /\ expanded' = exp2 /\ latestC' = newC
              /\ height' = index /\ roots' = (index :> RootOf[newC]) @@ roots /\ contAt' = (index :> newC) @@ contAt
              /\ deadAt' = [n \in DOMAIN deadAt \cup died |-> IF n \in died THEN index ELSE deadAt[n]]
              /\ UNCHANGED <<disk, G, drops, panic>>
           ELSE
              /\ drops < MaxDrop
              /\ drops' = drops + 1
              /\ IF DropShares
                   THEN cache' = cache2 /\ trieC' = (IF expanded THEN newC ELSE trieC) /\ expanded' = (expanded /\ exp2)
                   ELSE UNCHANGED <<cache, trieC, expanded>>
              /\ UNCHANGED <<disk, top, latestC, height, roots, contAt, G, deadAt, panic>>
        /\ last' = [op |-> "block", ch |-> ch, commit |-> commit, collapse |-> collapse]

\* flush of the write cache into the backend
Persist ==
    /\ ~panic /\ top # <<>>
    /\ disk' = View(top, disk) /\ top' = <<>>
    /\ last' = [op |-> "persist"]
    /\ UNCHANGED <<cache, trieC, expanded, latestC, height, roots, contAt, G, drops, deadAt, panic>>

\* stateroot.Module.GC(index, backend): removes from the BACKEND the inactive records not newer than index
GC(g) ==
    /\ ~panic /\ GCMode /\ g \in 1..height
    /\ disk' = [n \in {m \in DOMAIN disk : disk[m].active \/ disk[m].since > (IF BugGC THEN g + 1 ELSE g)} |-> disk[n]]
    /\ G' = IF g > G THEN g ELSE G
    /\ last' = [op |-> "gc", g |-> g]
    /\ UNCHANGED <<top, cache, trieC, expanded, latestC, height, roots, contAt, drops, deadAt, panic>>

\* a new module instance over the same store (stateroot.Module.Init): fresh trie, empty cache
Reinit ==
    /\ ~panic /\ (cache # <<>> \/ expanded \/ trieC # latestC)
    /\ cache' = <<>> /\ trieC' = latestC /\ expanded' = FALSE
    /\ last' = [op |-> "reinit"]
    /\ UNCHANGED <<disk, top, latestC, height, roots, contAt, G, drops, deadAt, panic>>

Next == \/ \E v \in {View(top, disk)} : \E ch \in Batches : Block(v, ch)
        \/ Persist
        \/ \E g \in 1..MaxH : GC(g)
        \/ Reinit

Spec == Init /\ [][Next]_vars

(***************************************************************************)
(* Impl => Abstract                                                        *)
(***************************************************************************)
CurTbl == Tbl(View(top, disk))
CurOcc == OccOf[latestC]

\* reading key k through root r in table t (readers of old roots ignore the active flag)
RECURSIVE ReadVia(_, _, _)
ReadVia(t, n, p) ==
    IF n = M!NoRoot \/ n \notin DOMAIN t THEN M!Fail
    ELSE CASE Reg[n].kind = "L" -> IF p = <<>> THEN Reg[n].val ELSE M!Fail
           [] Reg[n].kind = "E" -> IF IsPrefix(Reg[n].path, p) THEN ReadVia(t, Reg[n].kids[1], Drop(p, Len(Reg[n].path))) ELSE M!Fail
           [] Reg[n].kind = "B" -> IF p = <<>> THEN ReadVia(t, Reg[n].slots[17], <<>>)
                                   ELSE ReadVia(t, Reg[n].slots[Head(p) + 1], Tail(p))

AbsInv ==
    \A t \in {CurTbl}, o \in {CurOcc}, kept \in {M!Retained(GCMode, height, G)} :
        /\ M!LatestPresent(t, o, GCMode)
        /\ M!CountExact(t, o, GCMode)
        /\ IF GCMode THEN M!UnrefInactive(t, o) /\ M!SinceExact(t, o, deadAt) ELSE M!NoGarbage(t, o)
        /\ \A h \in kept : M!RootReadable(t, roots[h])
        /\ \A h \in 0..height : \A k \in Keys :
              IF h \in kept THEN M!ReadExact(contAt[h], k, ReadVia(t, roots[h], k))
              ELSE M!ReadClean(contAt[h], k, ReadVia(t, roots[h], k))
NoPanic == ~panic
\* the cache protocol itself: a cached count is the stored one (this is what a dropped block breaks)
CacheExact == \A v \in {View(top, disk)} : \A n \in DOMAIN cache : n \in DOMAIN v /\ v[n].active /\ v[n].count = cache[n]
ModuleTrieIsLatest == trieC = latestC
=============================================================================
