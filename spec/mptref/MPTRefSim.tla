----------------------------- MODULE MPTRefSim -----------------------------
(* Behaviour generator: MPTRefImpl (a dropped block leaves no trace: the behaviour the property needs) plus a
   history variable, printed as JSON when the depth bound is reached (tlc -simulate).  Every step carries the
   model's prediction of the table (number of records, of active records, sum of the stored counts) so that the
   driver can report drift between the model and the code. *)
EXTENDS MCMPTRef, Json, Randomization

CONSTANT Depth
VARIABLE hist

Summary(v) == [size   |-> Cardinality(DOMAIN v),
               active |-> Cardinality({n \in DOMAIN v : v[n].active}),
               refs   |-> FoldSet(LAMBDA n, a : a + (IF v[n].active THEN v[n].count ELSE 0), 0, DOMAIN v)]

ChJson(ch) == {[k |-> PathStr(k), v |-> IF ch[k] = Del THEN "" ELSE ch[k]] : k \in DOMAIN ch}

SimInit == Init /\ hist = << [op |-> "init", mode |-> IF GCMode THEN "gc" ELSE "latest",
                              keys |-> {PathStr(k) : k \in Keys}, vals |-> Vals] >>

\* generation mix: a handful of random batches per step, so that flushes, GC runs and re-initialisations
\* are not drowned by the many possible batches (TLC picks uniformly among the successor states)
GenNext == \/ \E v \in {View(top, disk)} : \E ch \in RandomSubset(4, Batches) : Block(v, ch)
           \/ Persist
           \/ \E g \in 1..MaxH : GC(g)
           \/ Reinit

SimNext == /\ GenNext
           /\ hist' = Append(hist, [op |-> last'.op,
                                    ch |-> IF last'.op = "block" THEN ChJson(last'.ch) ELSE {},
                                    commit |-> IF last'.op = "block" THEN last'.commit ELSE FALSE,
                                    collapse |-> IF last'.op = "block" THEN last'.collapse ELSE "none",
                                    g |-> IF last'.op = "gc" THEN last'.g ELSE 0,
                                    pred |-> Summary(View(top', disk'))])
SimSpec == SimInit /\ [][SimNext]_<<vars, hist>>

Emit == Len(hist) # Depth \/ PrintT(<<"@@HIST@@", ToJson(hist)>>)
=============================================================================
