------------------------------ MODULE MCMPTRef ------------------------------
(* Universes of the exhaustive runs of MPTRefImpl.  K4: four two-nibble keys whose sub-tries under the first
   nibbles 1 and 2 are equal when they hold equal values (shared branch / leaves); K3: three keys, one a
   prefix of another (value slot of a branch) *)
EXTENDS MPTRefImpl

K4 == { <<1, 1>>, <<1, 2>>, <<2, 1>>, <<2, 2>> }
K3 == { <<1, 1>>, <<1, 1, 2, 1>>, <<2, 1>> }
V2 == { "aa", "bb" }
V1 == { "aa" }
\* The view keeps what the future and the invariants depend on: in ModeLatest the two store layers only matter
\* merged; roots / contents of heights that are no longer retained and death heights of nodes that are not
\* stored as inactive records are history.
MCView == LET v    == View(top, disk)
              kept == M!Retained(GCMode, height, G)
          IN  <<IF GCMode THEN <<disk, top>> ELSE v, cache, trieC, IF DropShares THEN expanded ELSE FALSE, latestC, height,
                [h \in kept |-> roots[h]], G, drops,
                [n \in {m \in DOMAIN v : ~v[m].active} |-> IF n \in DOMAIN deadAt THEN deadAt[n] ELSE -1], panic>>
=============================================================================
