------------------------------ MODULE MCMPTRef ------------------------------
(* Universes of the exhaustive runs of MPTRefImpl.  K4: four two-nibble keys whose sub-tries under the first
   nibbles 1 and 2 are equal when they hold equal values (shared branch / leaves); K3: three keys, one a
   prefix of another (value slot of a branch) *)
EXTENDS MPTRefImpl

K4 == { <<1, 1>>, <<1, 2>>, <<2, 1>>, <<2, 2>> }
K3 == { <<1>>, <<1, 1>>, <<2, 1>> }
V2 == { "aa", "bb" }
V1 == { "aa" }
\* the view hides bookkeeping that does not influence the future
MCView == <<disk, top, cache, trieC, expanded, latestC, height, roots, contAt, G, drops, deadAt, panic>>
=============================================================================
