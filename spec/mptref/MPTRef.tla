------------------------------- MODULE MPTRef -------------------------------
(***************************************************************************)
(* Abstract (property level) specification of the trie node table, C11.    *)
(*                                                                         *)
(* It says what the property statement says about the DATABASE and nothing *)
(* about how the code gets there (no addRef/removeRef, no cache).  Every   *)
(* operator is parameterised by the node table                             *)
(*                                                                         *)
(*    tbl : node identifier -> [kids, count, active, since, ok]            *)
(*                                                                         *)
(*   kids    sequence of child identifiers, one per non-empty child slot   *)
(*           (a branch may name the same child in several slots)           *)
(*   count   stored reference count            (meaningful when active)    *)
(*   active  the active flag of the stored record                          *)
(*   since   stored height                      (meaningful when inactive) *)
(*   ok      the stored bytes decode and hash to the key ("decodable")     *)
(*                                                                         *)
(* so that the same definitions judge the implementation-shaped model      *)
(* (MPTRefImpl) and the tables dumped from the real store (MPTRefTrace).   *)
(* A root is a node identifier; NoRoot is the root of the empty trie.      *)
(***************************************************************************)
EXTENDS Integers, Sequences, FiniteSets, FiniteSetsExt

NoRoot == ""
Fuel   == 200          \* bound on the depth of any walk: makes every operator total on arbitrary tables

KidsOf(tbl, n) == IF n \in DOMAIN tbl THEN tbl[n].kids ELSE <<>>
KidSet(tbl, n) == {KidsOf(tbl, n)[i] : i \in DOMAIN KidsOf(tbl, n)}

(***************************************************************************)
(* Occ(tbl, root): the number of times every node occurs in the trie under *)
(* root, i.e. in the tree obtained by unfolding the child links (a node    *)
(* shared by k parents slots occurs k times, and so does everything under  *)
(* it).  Computed level by level from the table itself.  Nodes that are    *)
(* named but absent from the table are counted too (they have no kids).    *)
(***************************************************************************)
EmptyBag == [x \in {} |-> 0]

RECURSIVE WalkOcc(_, _, _, _)
WalkOcc(tbl, frontier, acc, fuel) ==
    IF DOMAIN frontier = {} \/ fuel = 0 THEN acc
    ELSE LET F     == DOMAIN frontier
             edges == UNION { {<<n, i>> : i \in DOMAIN KidsOf(tbl, n)} : n \in F }
             nids  == UNION { KidSet(tbl, n) : n \in F }
             next  == FoldSet(LAMBDA e, a : [a EXCEPT ![KidsOf(tbl, e[1])[e[2]]] = @ + frontier[e[1]]],
                              [k \in nids |-> 0], edges)
             acc2  == [k \in DOMAIN acc \cup F |->
                          (IF k \in DOMAIN acc THEN acc[k] ELSE 0) + (IF k \in F THEN frontier[k] ELSE 0)]
         IN  WalkOcc(tbl, next, acc2, fuel - 1)

Occ(tbl, root) == IF root = NoRoot THEN EmptyBag ELSE WalkOcc(tbl, [r \in {root} |-> 1], EmptyBag, Fuel)

\* Reach(tbl, root): identifiers reachable from root (present or not)
RECURSIVE WalkReach(_, _, _, _)
WalkReach(tbl, frontier, seen, fuel) ==
    IF frontier = {} \/ fuel = 0 THEN seen
    ELSE LET s2 == seen \cup frontier
         IN  WalkReach(tbl, (UNION {KidSet(tbl, n) : n \in frontier}) \ s2, s2, fuel - 1)

Reach(tbl, root) == IF root = NoRoot THEN {} ELSE WalkReach(tbl, {root}, {}, Fuel)

(***************************************************************************)
(* The state predicates of the property.  gc = the mode garbage-collects   *)
(* (ModeGC); otherwise only the latest state is kept (ModeLatest).         *)
(* occ = Occ(tbl, latest root).                                            *)
(***************************************************************************)
\* a record a reader of the latest state sees (readers ignore inactive records in GC mode)
Live(tbl, n, gc) == n \in DOMAIN tbl /\ (gc => tbl[n].active)

\* "every node reachable from a retained root is present and decodable" - for the latest root
LatestPresent(tbl, occ, gc)   == \A n \in DOMAIN occ : Live(tbl, n, gc)
LatestDecodable(tbl, occ)     == \A n \in DOMAIN occ \cap DOMAIN tbl : tbl[n].ok
\* "its stored reference count equals the number of times it occurs in the latest trie"
CountExact(tbl, occ, gc)      == \A n \in DOMAIN occ : Live(tbl, n, gc) => tbl[n].count = occ[n]
\* "nodes no longer referenced are deleted ..."                      (ModeLatest)
NoGarbage(tbl, occ)           == \A n \in DOMAIN tbl : n \in DOMAIN occ
\* "... or marked inactive with the height at which they became so"  (ModeGC)
\* deadAt[n] = the height of the block whose trie was the first not to contain n any more
UnrefInactive(tbl, occ)       == \A n \in DOMAIN tbl : n \notin DOMAIN occ => ~tbl[n].active
SinceExact(tbl, occ, deadAt)  == \A n \in DOMAIN tbl : (n \notin DOMAIN occ /\ ~tbl[n].active) =>
                                     (n \in DOMAIN deadAt /\ tbl[n].since = deadAt[n])
\* "every node reachable from a retained root is present and decodable" - any retained root;
\* with the heights >= G retained this is also "GC(G) never removes a node needed by a height >= G"
RootReadable(tbl, root)       == \A n \in Reach(tbl, root) : n \in DOMAIN tbl /\ tbl[n].ok

\* heights whose state is retained: the latest only, or everything from the last GC height on
Retained(gc, height, G) == IF gc THEN {h \in 0..height : h >= G} ELSE {height}

(***************************************************************************)
(* Reading.  content = the key-value map the root committed to; an answer  *)
(* is a value or Fail.  A retained root answers exactly; a dropped root    *)
(* fails or answers exactly ("fails cleanly instead of returning wrong     *)
(* data").                                                                 *)
(***************************************************************************)
Fail == "!"
Expected(content, k)          == IF k \in DOMAIN content THEN content[k] ELSE Fail
ReadExact(content, k, ans)    == ans = Expected(content, k)
ReadClean(content, k, ans)    == ans = Fail \/ ans = Expected(content, k)
=============================================================================
