---------------------------- MODULE MPTRefTrace ----------------------------
(***************************************************************************)
(* Validates what the REAL code left in the storage.DataMPT table against  *)
(* the abstract specification MPTRef.  Every event of the log carries the  *)
(* change of the raw table since the previous event (records decoded by    *)
(* the harness's own decoder: identifier, child identifiers, stored count, *)
(* active flag, stored height, decodability), so that the table is         *)
(* re-assembled here and reachability, occurrence counts and the heights   *)
(* at which nodes became unreferenced are recomputed FROM THE TABLE ITSELF *)
(* - independently of addRef / removeRef and of the refcount cache.        *)
(*                                                                         *)
(* Events                                                                  *)
(*   init    layer ("module" = stateroot.Module | "trie" = mpt.Trie with   *)
(*           single Put/Delete | "chain" = core.Blockchain),               *)
(*           mode ("latest" | "gc" | "gclatest" | "all" = archival, no     *)
(*           counters: only what the stored roots give back is judged)    *)
(*   block   h, committed (FALSE = computed but never committed), failed,   *)
(*           root, ch (module / trie layer: the batch)                     *)
(*   gc      g                                                             *)
(*   persist | reinit              (no logical change expected)            *)
(* every event but init: put, del (table delta), reads (answers of the     *)
(* public read API for the heights probed after the step: module / trie    *)
(* layer - Get of every key of the universe and Find of everything, judged *)
(* against the content folded from the batches; chain layer - a digest of  *)
(* Find of everything, judged against the digest read when the height was  *)
(* the latest).                                                            *)
(* The step is written with primed variables on purpose: TLC re-evaluates  *)
(* LET definitions at every use inside an action, a primed variable is     *)
(* evaluated once.                                                         *)
(***************************************************************************)
EXTENDS TraceIO, FiniteSets, FiniteSetsExt, SequencesExt

VARIABLES l,        \* next line
          layer,    \* "module" | "chain"
          gc,       \* the trie mode garbage-collects
          arch,     \* archival mode: no reference counters, every height retained; only the read API is judged
          tbl,      \* the re-assembled table
          height,   \* latest committed height
          roots,    \* height -> root identifier
          G,        \* highest GC height so far
          cont,     \* height -> key-value content (module layer: folded from the batches)
          dig,      \* height -> digest of the content read when the height was the latest (chain layer)
          occ,      \* occurrence counts of the latest trie after the previous event
          deadAt    \* node -> height at which it became unreferenced (last time)
vars == <<l, layer, gc, arch, tbl, height, roots, G, cont, dig, occ, deadAt>>

M == INSTANCE MPTRef

Init == /\ l = 1 /\ layer = "" /\ gc = FALSE /\ arch = FALSE /\ tbl = <<>> /\ height = 0 /\ roots = <<>> /\ G = 0
        /\ cont = <<>> /\ dig = <<>> /\ occ = <<>> /\ deadAt = <<>>

Entry(p) == [kids |-> p.kids, count |-> p.count, active |-> p.active, since |-> p.since, ok |-> p.ok]

Apply(t, put, del) ==
    LET pids == {put[i].id : i \in DOMAIN put}
        dids == ToSet(del)
        byId == [id \in pids |-> Entry(put[CHOOSE i \in DOMAIN put : put[i].id = id])]
    IN  [id \in (DOMAIN t \ dids) \cup pids |-> IF id \in pids THEN byId[id] ELSE t[id]]

ApplyBatch(c, ch) ==
    LET ks  == {ch[i][1] : i \in DOMAIN ch}
        val == [k \in ks |-> (ch[CHOOSE i \in DOMAIN ch : ch[i][1] = k])[2]]
        put == {k \in ks : val[k] # ""}
    IN  [k \in (DOMAIN c \ ks) \cup put |-> IF k \in put THEN val[k] ELSE c[k]]

AsMap(pairs) == [k \in {pairs[i][1] : i \in DOMAIN pairs} |-> (pairs[CHOOSE i \in DOMAIN pairs : pairs[i][1] = k])[2]]

\* ---- judgement of the answers of the read API
ModuleRead(r, c, kept) ==
    LET getok  == \A i \in DOMAIN r.get :
                     IF kept THEN M!ReadExact(c, r.get[i][1], r.get[i][2]) ELSE M!ReadClean(c, r.get[i][1], r.get[i][2])
        fm     == AsMap(r.find)
        findok == IF kept THEN (IF DOMAIN c = {} THEN DOMAIN fm = {} ELSE (r.findok /\ fm = c /\ Len(r.find) = Cardinality(DOMAIN c)))
                  ELSE (\A k \in DOMAIN fm : k \in DOMAIN c /\ fm[k] = c[k])
    IN  NameIf(getok, IF kept THEN "RetainedReadWrong" ELSE "DroppedReadWrongData")
        \cup NameIf(findok, IF kept THEN "RetainedFindWrong" ELSE "DroppedFindWrongData")

ChainRead(r, d, kept) ==
    IF r.h \notin DOMAIN d THEN {}
    ELSE IF kept THEN NameIf(r.ok /\ r.digest = d[r.h], "RetainedReadWrong")
         ELSE NameIf(~r.ok \/ r.digest = d[r.h], "DroppedReadWrongData")

Reads(e, c2, d2, kept) ==
    UNION { IF layer # "chain"
              THEN (IF e.reads[i].h \in DOMAIN c2 THEN ModuleRead(e.reads[i], c2[e.reads[i].h], e.reads[i].h \in kept) ELSE {})
              ELSE ChainRead(e.reads[i], d2, e.reads[i].h \in kept)
            : i \in DOMAIN e.reads }

\* ---- state predicates on the table after the event
TableChecks(t2, occ2, dead2, roots2, height2, G2, isgc) ==
    LET kept == M!Retained(gc, height2, G2) \ {height2}
    IN  NameIf(M!LatestPresent(t2, occ2, gc), "LatestNodeMissing")
        \cup NameIf(M!LatestDecodable(t2, occ2), "Undecodable")
        \cup NameIf(M!CountExact(t2, occ2, gc), "CountMismatch")
        \cup (IF gc THEN NameIf(M!UnrefInactive(t2, occ2), "UnreferencedActive")
                         \cup NameIf(M!SinceExact(t2, occ2, dead2), "InactiveSinceWrong")
              ELSE NameIf(M!NoGarbage(t2, occ2), "GarbageKept"))
        \cup NameIf(\A h \in kept : h \in DOMAIN roots2 => M!RootReadable(t2, roots2[h]),
                    IF isgc THEN "GCRemovedNeeded" ELSE "RetainedNodeMissing")

Step ==
    /\ l <= Len(TLog)
    /\ l' = l + 1
    /\ LET e == TLog[l] IN
       IF e.event = "init" THEN
            /\ layer' = e.layer /\ gc' = (e.mode # "latest") /\ arch' = (e.mode = "all") /\ tbl' = <<>> /\ height' = 0
            /\ roots' = (0 :> M!NoRoot) /\ G' = 0 /\ cont' = (0 :> <<>>) /\ dig' = <<>> /\ occ' = <<>> /\ deadAt' = <<>>
       ELSE
         LET commit == e.event = "block" /\ e.committed IN
         /\ UNCHANGED <<layer, gc, arch>>
         /\ tbl'    = Apply(tbl, e.put, e.del)
         /\ height' = IF commit THEN e.h ELSE height
         /\ roots'  = IF commit THEN (e.h :> e.root) @@ roots ELSE roots
         /\ cont'   = IF commit /\ layer # "chain" THEN (e.h :> ApplyBatch(cont[height], e.ch)) @@ cont ELSE cont
         /\ G'      = IF e.event = "gc" /\ e.g > G THEN e.g ELSE G
         /\ occ'    = IF arch THEN <<>> ELSE M!Occ(tbl', roots'[height'])
         /\ LET died == IF commit THEN DOMAIN occ \ DOMAIN occ' ELSE {}
            IN  deadAt' = [n \in DOMAIN deadAt \cup died |-> IF n \in died THEN height' ELSE deadAt[n]]
         /\ LET latestRd == {i \in DOMAIN e.reads : e.reads[i].h = height'}
            IN  dig' = IF layer = "chain" /\ commit /\ latestRd # {}
                         THEN (height' :> e.reads[CHOOSE i \in latestRd : TRUE].digest) @@ dig ELSE dig
         /\ Report(l, (IF arch THEN {} ELSE TableChecks(tbl', occ', deadAt', roots', height', G', e.event = "gc"))
                      \cup Reads(e, cont', dig', IF arch THEN 0..height' ELSE M!Retained(gc, height', G'))
                      \cup (IF e.event = "block" THEN NameIf(~e.failed, "ApplyFailed") ELSE {})
                      \cup (IF commit THEN NameIf(e.h = height + 1 \/ (e.h = 0 /\ height = 0), "HeightSkipped") ELSE {}),
                   [event |-> e.event, height |-> height', size |-> Cardinality(DOMAIN tbl')])

TraceSpec == Init /\ [][Step]_vars
=============================================================================
