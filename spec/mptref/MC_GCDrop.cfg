SPECIFICATION Spec
CONSTANTS
  Keys <- K3
  Vals <- V2
  GCMode = TRUE
  MaxH = 3
  MaxDrop = 1
  MaxCh = 2
  DropShares = FALSE
  BugGC = FALSE
  BugStale = FALSE
INVARIANTS AbsInv NoPanic CacheExact ModuleTrieIsLatest
VIEW MCView
CHECK_DEADLOCK FALSE
