------------------------------ MODULE AcceptTrace ------------------------------
(***************************************************************************)
(* Judges traces of real nodes (harness/c06accept) with the ABSTRACT       *)
(* specification Accept.  Events:                                          *)
(*   init         start of a world (one canonical chain, one protocol      *)
(*                configuration)                                           *)
(*   offer        one block (via AddBlock) or one header (via AddHeaders;  *)
(*                every other one followed, in the same call, by a header  *)
(*                linked to it and signed by its designated validators)    *)
(*                offered to a freshly prepared node: the description of   *)
(*                the offered block MEASURED by the harness (attrs), the   *)
(*                description the case table declared (decl), the result,  *)
(*                and what changed between the observation before and the  *)
(*                observation after                                        *)
(*   good         the correct next block offered to the same node after a  *)
(*                rejected offer                                           *)
(*   undecodable  the corrupted bytes were not a block (nothing offered)   *)
(* The abstract post-state is reconstructed from the observations only.    *)
(***************************************************************************)
EXTENDS TraceIO, Accept, SequencesExt

VARIABLES l, s, vt, skip
vars == <<l, s, vt, skip>>

Init == l = 1 /\ s = [blkH |-> 0, hdrs |-> <<>>, led |-> <<>>, pool |-> "p"] /\ vt = TRUE /\ skip = FALSE

\* ids reported by the harness: c canonical header of that height, o the offered block's header, x anything else
MapIds(ids, hid) == [i \in DOMAIN ids |-> IF ids[i] = "o" THEN hid ELSE ids[i]]

Pre(e) == [blkH |-> e.pre.blkH, hdrs |-> MapIds(e.pre.hdrs, e.attrs.hid), led |-> [i \in 1..e.pre.blkH |-> "c"], pool |-> "p"]

Post(p, e) ==
    [blkH |-> p.blkH + e.obs.blk_plus,
     hdrs |-> MapIds(e.obs.hdrs_after, e.attrs.hid),
     led  |-> IF e.obs.blk_plus = 1 /\ e.obs.tip_is_offer THEN Append(p.led, e.attrs.hid)
              ELSE IF e.obs.led_changed = <<>> /\ e.obs.blk_plus = 0 THEN p.led
              ELSE Append(p.led, "corrupted"),
     pool |-> IF e.obs.pool_changed THEN "changed" ELSE p.pool]

\* keys of the store that recording one header touches
HeaderKeys == {"hdr_record", "cur_header", "hdr_hash_page"}

\* declared (case table) and measured descriptions agree in everything the verdict depends on
Realised(e) ==
    LET d == e.decl  m == e.attrs IN
    /\ Valid(d, TRUE) = Valid(m, TRUE) /\ HeaderOK(d) = HeaderOK(m)
    /\ d.hid = m.hid /\ d.txdef = m.txdef /\ d.free = m.free /\ d.idx = m.idx /\ d.merkle = m.merkle
    /\ (~d.prev => ~m.prev) /\ (d.ts # "later" => d.ts = m.ts) /\ (~d.srflag => ~m.srflag) /\ (~d.prevroot => ~m.prevroot)
    /\ (~d.wit => ~m.wit)

BlockChecks(p, e, t) ==
    LET o == e.attrs  acc == e.acc IN
    NameIf(WF(o), "DescriptionWF")
    \cup NameIf(Realised(e), "CaseRealised")
    \cup NameIf(Sound(p, o, acc, e.vt), "Sound")
    \cup NameIf(AcceptEffect(p, o, acc, t), "AcceptEffect")
    \cup NameIf((acc /\ Valid(o, TRUE) /\ o.hid = "c") => e.obs.ref_equal, "AcceptedMatchesReference")
    \* not judged (reported as an observation): an accepted block with the correct block's hash gives the correct state
    \cup NameIf((acc /\ o.hid = "c") => e.obs.ref_equal, "SameHashSameState")
    \cup NameIf(RejectKeepsLedger(p, acc, t), "RejectKeepsLedger")
    \cup NameIf(RejectKeepsPool(p, acc, t), "RejectKeepsPool")
    \cup NameIf(HeaderRule(p, o, acc, t), "HeaderRule")
    \cup NameIf(~acc => ToSet(e.obs.db_changed) \subseteq (IF t.hdrs # p.hdrs THEN HeaderKeys ELSE {}), "RejectKeepsStore")
    \cup NameIf(Complete(p, o, acc), "Complete")
    \* the code-shaped model's prediction (as the pinned tree behaves, or as the design model says)
    \cup NameIf(~e.pred.has \/ (e.pred.acc = acc /\ (acc \/ e.pred.hdr = (t.hdrs # p.hdrs)))
                             \/ (e.pred.alt_acc = acc /\ (acc \/ e.pred.alt_hdr = (t.hdrs # p.hdrs))), "ImplPrediction")

HeaderChecks(p, e, t) ==
    LET o == e.attrs  rec == t.hdrs # p.hdrs IN
    NameIf(Realised(e), "CaseRealised")
    \cup NameIf(HdrSound(p, o, rec), "HdrSound")
    \cup NameIf(HdrEffect(p, o, rec, t), "HdrEffect")
    \cup NameIf(HdrKeepsLedger(p, t) /\ e.obs.led_changed = <<>>, "HdrKeepsLedger")
    \cup NameIf(ToSet(e.obs.db_changed) \subseteq (IF rec THEN HeaderKeys ELSE {}), "HdrKeepsStore")
    \cup NameIf(~e.pred.has \/ e.pred.acc = rec \/ e.pred.alt_acc = rec, "ImplPrediction")

\* batch offers: the header the harness appended to the offered one (id "n") is linked to it and properly signed
HasFollower(hs) == Len(hs) > 0 /\ hs[Len(hs)] = "n"
StripFollower(hs) == IF HasFollower(hs) THEN SubSeq(hs, 1, Len(hs) - 1) ELSE hs

Correct == [idx |-> "next", prev |-> TRUE, ts |-> "later", merkle |-> TRUE, srflag |-> TRUE, prevroot |-> TRUE,
            wit |-> TRUE, txdef |-> "none", hid |-> "c", free |-> FALSE]

Step ==
    /\ l <= Len(TLog)
    /\ l' = l + 1
    /\ LET e == TLog[l] IN
       CASE e.event = "init" ->
              /\ vt' = e.vt /\ skip' = FALSE /\ UNCHANGED s
         [] e.event = "offer" ->
              LET p == Pre(e)
                  t == Post(p, e) IN
              /\ s' = t /\ vt' = e.vt
              /\ skip' = (e.via = "block" /\ e.acc)
              /\ Report(l, IF e.via = "block" THEN BlockChecks(p, e, t)
                           ELSE HeaderChecks(p, e, [t EXCEPT !.hdrs = StripFollower(t.hdrs)])
                                \cup NameIf(HasFollower(t.hdrs) =>
                                               (StripFollower(t.hdrs) # p.hdrs /\ HeaderOK(e.attrs)), "FollowerOnlyAfterValid"),
                        [id |-> e.id, kind |-> e.kind, family |-> e.family, state |-> e.state, via |-> e.via])
         [] e.event = "good" ->
              /\ UNCHANGED <<s, vt, skip>>
              /\ Report(l, NameIf(MustAccept(s, Correct) => e.acc, "CorrectStillAccepted")
                           \cup NameIf(e.acc => e.ref_diff = <<>>, "CorrectMatchesReference"),
                        [id |-> e.id])
         [] OTHER -> UNCHANGED <<s, vt, skip>>

TraceSpec == Init /\ [][Step]_vars
=============================================================================
