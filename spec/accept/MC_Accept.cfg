\* design model (no quirks): every step of AddBlock/AddHeaders satisfies the abstract judge for ALL offer descriptions
\* (5 index relations x 3 timestamp relations x 6 transaction-defect classes x 3 header identities x 2^7 flags, WF)
\* in every node state with <= MaxH accepted blocks, <= 2 headers ahead of the blocks, any pool content
SPECIFICATION Spec
CONSTANTS
  MaxH = 2
  VT = TRUE
  Quirks = {}
  Bug = "none"
INVARIANTS BlockStepsOK HeaderStepsOK CorrectStillAccepted
CHECK_DEADLOCK FALSE
