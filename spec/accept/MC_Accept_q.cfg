\* quick-tier variant of MC_Accept.cfg: at most one accepted block
SPECIFICATION Spec
CONSTANTS
  MaxH = 1
  VT = TRUE
  Quirks = {}
  Bug = "none"
INVARIANTS BlockStepsOK HeaderStepsOK CorrectStillAccepted
CHECK_DEADLOCK FALSE
