------------------------------ MODULE AcceptImpl ------------------------------
(***************************************************************************)
(* C06: exhaustive check  Impl => Abstract.  The node of AcceptCode is     *)
(* driven through every reachable state (accepted blocks <= MaxH, headers  *)
(* ahead <= 2, any pool content); in EVERY state the invariants evaluate   *)
(* the abstract judgement Accept!StepOK / HdrStepOK on the outcome the     *)
(* code-shaped model gives for EVERY well-formed offer description         *)
(* (5 index relations x 3 timestamp relations x 6 transaction-defect       *)
(* classes x 3 header identities x 2^7 flags).                             *)
(***************************************************************************)
EXTENDS AcceptCode

CONSTANTS MaxH,     \* blocks accepted at most
          VT        \* VerifyTransactions

VARIABLE s
vars == <<s>>

Init == s = [blkH |-> 0, hdrs |-> <<>>, led |-> <<>>, pool |-> {}]

\* successor STATES are enumerated through the (small) set of distinct outcomes; the invariants below quantify over
\* every offer description in every reachable state
BlockOutcomes  == {ImplAdd(s, o, VT).t : o \in {x \in OffersAt(s) : ImplAdd(s, x, VT).acc => s.blkH < MaxH}}
HeaderOutcomes == {ImplHdr(s, o).t : o \in {x \in WFOffers : x.srflag}}
AddBlockA     == \E t \in BlockOutcomes : s' = t
AddHeaderA    == Len(s.hdrs) < 2 /\ \E t \in HeaderOutcomes : s' = t
PoolAdd(x)    == x \notin s.pool /\ s' = [s EXCEPT !.pool = @ \cup {x}]
PoolDel(x)    == x \in s.pool /\ s' = [s EXCEPT !.pool = @ \ {x}]

Next == \/ AddBlockA
        \/ AddHeaderA
        \/ \E x \in PoolIds : PoolAdd(x) \/ PoolDel(x)

Spec == Init /\ [][Next]_vars

\* ---- Impl => Abstract: every possible step from the current state satisfies the judge ---------------------------
BadBlk == {o \in OffersAt(s) : ~StepOK(Abs(s), o, ImplAdd(s, o, VT).acc, Abs(ImplAdd(s, o, VT).t), VT)}
BadHdr == {o \in WFOffers : o.srflag /\ ~HdrStepOK(Abs(s), o, ImplHdr(s, o).rec, Abs(ImplHdr(s, o).t))}

BlockStepsOK  == BadBlk = {} \/ (PrintT(<<"@@BAD@@", "AddBlock", ToJson(s), ToJson(CHOOSE o \in BadBlk : TRUE)>>) /\ FALSE)
HeaderStepsOK == BadHdr = {} \/ (PrintT(<<"@@BAD@@", "AddHeaders", ToJson(s), ToJson(CHOOSE o \in BadHdr : TRUE)>>) /\ FALSE)

\* after any rejected offer the correct block is still accepted, unless a foreign header got (legally) recorded
Correct == [idx |-> "next", prev |-> TRUE, ts |-> "later", merkle |-> TRUE, srflag |-> TRUE, prevroot |-> TRUE,
            wit |-> TRUE, txdef |-> "none", hid |-> "c", free |-> FALSE]
CorrectStillAccepted ==
    \A o \in OffersAt(s) :
        LET r == ImplAdd(s, o, VT) IN
        (~r.acc /\ \A i \in DOMAIN r.t.hdrs : r.t.hdrs[i].hid = "c") => ImplAdd(r.t, Correct, VT).acc
=============================================================================
