\* named deviation (non-vacuity): in-block transactions verified in the node's own pool -> RejectKeepsPool
SPECIFICATION Spec
CONSTANTS
  MaxH = 1
  VT = TRUE
  Quirks = {}
  Bug = "pool_shared"
INVARIANTS BlockStepsOK HeaderStepsOK CorrectStillAccepted
CHECK_DEADLOCK FALSE
