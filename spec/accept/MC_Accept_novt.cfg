\* VerifyTransactions = FALSE: transaction clauses not judged, everything else is
SPECIFICATION Spec
CONSTANTS
  MaxH = 1
  VT = FALSE
  Quirks = {}
  Bug = "none"
INVARIANTS BlockStepsOK HeaderStepsOK CorrectStillAccepted
CHECK_DEADLOCK FALSE
