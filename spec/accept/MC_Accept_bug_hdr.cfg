\* named deviation (non-vacuity): header recorded before its witness is verified -> HeaderRule
SPECIFICATION Spec
CONSTANTS
  MaxH = 1
  VT = TRUE
  Quirks = {}
  Bug = "hdr_before_wit"
INVARIANTS BlockStepsOK HeaderStepsOK CorrectStillAccepted
CHECK_DEADLOCK FALSE
