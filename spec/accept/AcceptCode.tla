------------------------------ MODULE AcceptCode ------------------------------
(***************************************************************************)
(* C06, IMPLEMENTATION-SHAPED level, the code as functions: what           *)
(* Blockchain.AddBlock / AddHeaders of pkg/core/blockchain.go do with an   *)
(* offer, as the sequence of checks the code performs, with the side       *)
(* effects placed where the code places them (the header is recorded       *)
(* BEFORE the body is verified; transactions are verified in a scratch     *)
(* pool; storeBlock is the only ledger mutation).                          *)
(* Used by AcceptImpl (exhaustive check Impl => Abstract) and AcceptCases  *)
(* (case table with the predicted outcome).                                *)
(*                                                                         *)
(* Quirks = behaviours of the code as it is in the pinned tree that the    *)
(* abstract level rejects (each one was reproduced on the real code and is *)
(* reported as a finding); the design model has Quirks = {}.               *)
(*   pool_shortcut   a transaction whose hash is in the node's memory pool *)
(*                   is not verified again (blockchain.go:1864)            *)
(*   conflict_evict  the scratch pool applies the memory pool's            *)
(*                   replacement rule, so of two conflicting transactions  *)
(*                   the later evicts the earlier and both stay in the     *)
(*                   block (blockchain.go:1858-1871, mem_pool.go:246-266)  *)
(*   known_header_nowit  when the header of the offered block is already   *)
(*                   recorded (header chain ahead), the block's own        *)
(*                   witness is not looked at (blockchain.go:1847-1852)    *)
(* Bug = named artificial deviations (model non-vacuity self-tests):       *)
(*   hdr_before_wit | ts_weak | pool_shared                                *)
(***************************************************************************)
EXTENDS Accept, TLC, Json

CONSTANTS Quirks, Bug

PoolIds == {"t", "u"}        \* t: hash of the offered block's (possibly defective) transaction, u: unrelated
WFOffers == {o \in Offers : WF(o)}

\* ---- node state ----------------------------------------------------------
\* st = [blkH, hdrs, led, pool]; hdrs = headers recorded above the top block, each [hid, rootok]: rootok = its
\* PrevStateRoot is the state root the node computes for the block below it (unknown to the node when the header is
\* recorded ahead of the blocks)
Abs(st) == [st EXCEPT !.hdrs = [i \in DOMAIN st.hdrs |-> st.hdrs[i].hid]]

\* an offer whose header hash equals a recorded (hence verified) header has that header's hashed fields
HashedOK(o) == o.idx = "next" /\ o.prev /\ o.ts = "later" /\ o.srflag
Consistent(st, o) == (st.hdrs # <<>> /\ Head(st.hdrs).hid = o.hid) => (HashedOK(o) /\ o.prevroot = Head(st.hdrs).rootok)
OffersAt(st) == {o \in WFOffers : Consistent(st, o)}

\* ---- AddBlock ------------------------------------------------------------
TsPass(o) == o.ts = "later" \/ (Bug = "ts_weak" /\ o.ts = "equal")

\* lookup of the previous header + verifyHeader: first failing stage or "ok"
HdrStage(o) ==
    IF ~o.prev THEN "prev"
    ELSE IF ~o.prevroot THEN "prevroot"
    ELSE IF ~TsPass(o) THEN "ts"
    ELSE IF ~o.wit THEN "wit"
    ELSE "ok"

TxFail(st, o) ==
    CASE o.txdef = "none"         -> FALSE
      [] o.txdef = "wit_same"     -> ~("pool_shortcut" \in Quirks /\ "t" \in st.pool)
      [] o.txdef = "mutual_evict" -> ~("conflict_evict" \in Quirks)
      [] OTHER                    -> TRUE

Rej(stage, t)  == [acc |-> FALSE, stage |-> stage, t |-> t]

\* storeBlock: executes the block; with a further header already recorded above, that header's PrevStateRoot is
\* compared with the new local root and the block is DROPPED on mismatch (blockchain.go:2101-2113)
Store(st, o) ==
    IF Len(st.hdrs) >= 2 /\ ~st.hdrs[2].rootok THEN Rej("nextroot", st)
    ELSE [acc |-> TRUE, stage |-> "stored",
          t |-> [blkH |-> st.blkH + 1, hdrs |-> Tail(st.hdrs), led |-> Append(st.led, o.hid), pool |-> st.pool \ {"t"}]]

Body(st, o, vt) ==      \* st already has the header of o recorded on top
    IF ~o.merkle THEN Rej("merkle", st)
    ELSE IF vt /\ TxFail(st, o)
         THEN Rej("tx", IF Bug = "pool_shared" /\ o.txdef \in {"state", "mutual"}
                        THEN [st EXCEPT !.pool = @ \cup {"u"}] ELSE st)
    ELSE Store(st, o)

ImplAdd(st, o, vt) ==
    IF o.idx # "next" THEN Rej("index", st)
    ELSE IF ~o.srflag THEN Rej("srflag", st)
    ELSE IF st.hdrs = <<>>
         THEN LET hs == HdrStage(o)
                  rec == [st EXCEPT !.hdrs = <<[hid |-> o.hid, rootok |-> o.prevroot]>>] IN
              IF Bug = "hdr_before_wit" /\ hs = "wit" THEN Rej("wit", rec)
              ELSE IF hs # "ok" THEN Rej(hs, st)
              ELSE Body(rec, o, vt)
         ELSE IF Head(st.hdrs).hid # o.hid THEN Rej("hash", st)
              \* the header is known: the code does not look at the block's own witness again
              ELSE IF ~o.wit /\ "known_header_nowit" \notin Quirks THEN Rej("wit", st)
              ELSE Body(st, o, vt)

\* ---- AddHeaders (one header, described relative to the header tip; the state-root setting is not on the wire, so
\* headers always arrive decoded with the node's own setting: only offers with o.srflag are considered) ---------
HRes(rec, stage, t) == [rec |-> rec, stage |-> stage, t |-> t]
ImplHdr(st, o) ==
    IF o.idx \in {"tip", "past"} THEN HRes(FALSE, "skipped", st)     \* silently dropped, no error
    ELSE IF o.idx # "next" THEN HRes(FALSE, "prev", st)
    ELSE IF ~o.prev THEN HRes(FALSE, "prev", st)
    ELSE IF st.hdrs = <<>> /\ ~o.prevroot THEN HRes(FALSE, "prevroot", st)
    ELSE IF ~TsPass(o) THEN HRes(FALSE, "ts", st)
    ELSE IF ~o.wit THEN HRes(FALSE, "wit", st)
    ELSE HRes(TRUE, "recorded", [st EXCEPT !.hdrs = Append(@, [hid |-> o.hid, rootok |-> o.prevroot])])
=============================================================================
