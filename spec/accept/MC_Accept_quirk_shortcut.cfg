\* behaviour of the pinned code (finding): must be CAUGHT by the abstract judge (Sound)
SPECIFICATION Spec
CONSTANTS
  MaxH = 1
  VT = TRUE
  Quirks = {"pool_shortcut"}
  Bug = "none"
INVARIANTS BlockStepsOK HeaderStepsOK CorrectStillAccepted
CHECK_DEADLOCK FALSE
