------------------------------- MODULE Accept -------------------------------
(***************************************************************************)
(* C06 - only valid chain extensions are accepted; a rejected block        *)
(* changes nothing.  ABSTRACT level: this module is the judge.             *)
(*                                                                         *)
(* An offered block is described by exactly the facts the property         *)
(* statement talks about (a record of Offers):                             *)
(*   idx      relation of its Index to the node's block height + 1         *)
(*            next | tip (= height, already on chain) | past | skip (+2)   *)
(*            | far                                                        *)
(*   prev     PrevHash is the hash of the block/header it extends          *)
(*   ts       later | equal | earlier  w.r.t. the previous timestamp       *)
(*   merkle   MerkleRoot field = Merkle root of the carried transactions   *)
(*   srflag   state-root-in-header setting of the block = the node's       *)
(*   prevroot PrevStateRoot = local state root of the previous block       *)
(*            (TRUE when state roots are not carried)                      *)
(*   wit      witness = valid multisignature of the NextConsensus address  *)
(*            of the previous block over this header                       *)
(*   txdef    none: all transactions individually valid and mutually       *)
(*            compatible; otherwise the class of the defect:               *)
(*            wit_same  a transaction whose witness does not verify while  *)
(*                      its hash is that of a valid transaction            *)
(*            wit_new   altered after signing (new hash, stale witness)    *)
(*            state     individually invalid against the ledger (expired,  *)
(*                      not yet valid, already on chain, conflicts with an *)
(*                      on-chain transaction, underfunded, fee too low,    *)
(*                      malformed script)                                  *)
(*            mutual    individually valid but incompatible together       *)
(*                      (duplicate, Conflicts attribute inside the block,  *)
(*                      two transactions overdrawing one payer)            *)
(*            mutual_evict  the same, in the arrangement where a memory    *)
(*                      pool would REPLACE the earlier transaction by the  *)
(*                      later one (Conflicts attribute + higher fee); for  *)
(*                      the statement it is simply incompatible            *)
(*   hid      identity of the header: "c" the header of the correct next   *)
(*            block, "f"/"g" any other header                              *)
(*   free     the block differs from the correct one in a header field the *)
(*            statement is silent about (version, nonce, primary index,    *)
(*            next consensus): acceptance is then not specified            *)
(*                                                                         *)
(* Node state: s = [blkH, hdrs, led, pool]                                 *)
(*   hdrs  ids of the headers recorded ABOVE the top block (header chain   *)
(*         ahead of the blocks), led ids of the accepted blocks, pool the  *)
(*         memory pool.                                                    *)
(* vt = the node verifies in-block transactions (VerifyTransactions);      *)
(* with vt = FALSE the transaction clauses are not judged.                 *)
(***************************************************************************)
EXTENDS Integers, Sequences, FiniteSets

IdxKinds == {"next", "tip", "past", "skip", "far"}
TsKinds  == {"later", "equal", "earlier"}
TxDefs   == {"none", "wit_same", "wit_new", "state", "mutual", "mutual_evict"}
HIds     == {"c", "f", "g"}

Offers == [idx : IdxKinds, prev : BOOLEAN, ts : TsKinds, merkle : BOOLEAN, srflag : BOOLEAN, prevroot : BOOLEAN,
           wit : BOOLEAN, txdef : TxDefs, hid : HIds, free : BOOLEAN]

\* the correct block's header is by definition correctly indexed, linked, timed and configured
WF(o) == o.hid = "c" => (o.idx = "next" /\ o.prev /\ o.ts = "later" /\ o.srflag /\ o.prevroot /\ ~o.free)

TxsOK(o)    == o.txdef = "none"
HeaderOK(o) == o.idx = "next" /\ o.prev /\ o.ts = "later" /\ o.srflag /\ o.prevroot /\ o.wit
Valid(o, vt) == HeaderOK(o) /\ o.merkle /\ (vt => TxsOK(o))

\* the block is the one the recorded header chain (if it is ahead) announces for this height
Linked(s, o) == s.hdrs = <<>> \/ Head(s.hdrs) = o.hid

----------------------------------------------------------------------------
\* Judgement of one AddBlock step: s --Offer(o), result acc--> t
Sound(s, o, acc, vt)        == acc => (Valid(o, vt) /\ Linked(s, o))
AcceptEffect(s, o, acc, t)  == acc => /\ t.blkH = s.blkH + 1
                                      /\ t.led = Append(s.led, o.hid)
                                      /\ t.hdrs = (IF s.hdrs = <<>> THEN <<>> ELSE Tail(s.hdrs))
RejectKeepsLedger(s, acc, t) == ~acc => (t.blkH = s.blkH /\ t.led = s.led)
RejectKeepsPool(s, acc, t)   == ~acc => t.pool = s.pool
\* header chain untouched, unless the header alone is validly signed and linked: then only it may be recorded
HeaderRule(s, o, acc, t)     == ~acc => \/ t.hdrs = s.hdrs
                                        \/ (HeaderOK(o) /\ s.hdrs = <<>> /\ t.hdrs = <<o.hid>>)
\* the correct block (and any valid variant the statement fully determines) is accepted when it fits the header chain
\* (headers recorded further ahead must be the correct chain's: a foreign header above may contradict the local state)
MustAccept(s, o)             == /\ Valid(o, TRUE) /\ ~o.free /\ Linked(s, o)
                                /\ \A i \in 2..Len(s.hdrs) : s.hdrs[i] = "c"
Complete(s, o, acc)          == MustAccept(s, o) => acc

StepOK(s, o, acc, t, vt) ==
    /\ Sound(s, o, acc, vt) /\ AcceptEffect(s, o, acc, t) /\ RejectKeepsLedger(s, acc, t)
    /\ RejectKeepsPool(s, acc, t) /\ HeaderRule(s, o, acc, t) /\ Complete(s, o, acc)

----------------------------------------------------------------------------
\* Judgement of one AddHeaders step with a single header.  The header is described relative to the HEADER tip; the
\* previous state root can only be compared when the header tip is the block tip (chk).
HeaderOKAt(o, chk) == o.idx = "next" /\ o.prev /\ o.ts = "later" /\ o.srflag /\ (chk => o.prevroot) /\ o.wit
HdrSound(s, o, rec)          == rec => HeaderOKAt(o, s.hdrs = <<>>)
HdrEffect(s, o, rec, t)      == t.hdrs = (IF rec THEN Append(s.hdrs, o.hid) ELSE s.hdrs)
HdrKeepsLedger(s, t)         == t.blkH = s.blkH /\ t.led = s.led /\ t.pool = s.pool
HdrStepOK(s, o, rec, t)      == HdrSound(s, o, rec) /\ HdrEffect(s, o, rec, t) /\ HdrKeepsLedger(s, t)
=============================================================================
