\* named deviation (non-vacuity): timestamp comparison weakened to >= -> Sound
SPECIFICATION Spec
CONSTANTS
  MaxH = 1
  VT = TRUE
  Quirks = {}
  Bug = "ts_weak"
INVARIANTS BlockStepsOK HeaderStepsOK CorrectStillAccepted
CHECK_DEADLOCK FALSE
