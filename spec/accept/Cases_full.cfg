\* the whole case table; Quirks = the behaviour of the pinned tree (prediction only, the verdict is the abstract one)
SPECIFICATION Spec
CONSTANTS
  StateKinds = {"fresh", "mid", "epoch", "hdr_ahead", "hdr_ahead_badroot", "hdr_ahead_badroot2", "pool_has", "pool_other", "restarted"}
  SRIH = {TRUE, FALSE}
  VTs = {TRUE, FALSE}
  Vias = {"block", "header"}
  Quirks = {"pool_shortcut", "conflict_evict", "known_header_nowit"}
  Bug = "none"
INVARIANTS Emit TableWF
CHECK_DEADLOCK FALSE
