\* the whole case table with the prediction of the DESIGN model (no quirks); see Cases_full.cfg
SPECIFICATION Spec
CONSTANTS
  StateKinds = {"fresh", "mid", "epoch", "hdr_ahead", "hdr_ahead_badroot", "hdr_ahead_badroot2", "pool_has", "pool_other", "restarted"}
  SRIH = {TRUE, FALSE}
  VTs = {TRUE, FALSE}
  Vias = {"block", "header"}
  Quirks = {}
  Bug = "none"
INVARIANTS Emit TableWF
CHECK_DEADLOCK FALSE
