------------------------------ MODULE AcceptCases ------------------------------
(***************************************************************************)
(* C06 case table (spec -> code direction).  One state of this spec = one  *)
(* case: (chain-state kind, StateRootInHeader, VerifyTransactions, way of  *)
(* offering, corruption kind, family).  For every case TLC prints the      *)
(* abstract description of the offered block (Accept!Offers), what the     *)
(* abstract specification demands (must be rejected / must be accepted /   *)
(* header may be recorded) and what the code-shaped model predicts         *)
(* (accepted?, rejecting stage, header recorded?).  The harness builds the *)
(* concrete block for the case out of a generated valid next block.        *)
(*                                                                         *)
(* Families: raw       the corruption is applied to the signed block as is *)
(*                     (hash / Merkle root / witness no longer match)      *)
(*           resealed  Merkle root recomputed where the transaction list   *)
(*                     changed and the header signed again by the          *)
(*                     designated validators: only the semantic rule can   *)
(*                     reject                                              *)
(***************************************************************************)
EXTENDS AcceptCode

CONSTANTS StateKinds, SRIH, VTs, Vias

VARIABLE c

Base == [idx |-> "next", prev |-> TRUE, ts |-> "later", merkle |-> TRUE, srflag |-> TRUE, prevroot |-> TRUE,
         wit |-> TRUE, txdef |-> "none", hid |-> "c", free |-> FALSE]

RR == {"raw", "resealed"}
R  == {"raw"}
K(touch, fams, d, need) == [touch |-> touch, fams |-> fams, d |-> d, need |-> need]
None == [x \in {} |-> TRUE]

\* touch: hdr  a hashed header field changes (raw: witness stale, new hash; resealed: new hash, fresh witness)
\*        txs  the transaction list changes (raw: header kept, Merkle root stale; resealed: new root, new hash)
\*        keep the transaction list changes in a way that leaves every transaction hash / the Merkle root as it was
\*        wit  only the witness changes (hash kept);  enc  only the encoding;  self  another real block;  none
\* need:  h1 needs at least one block above genesis, prep needs the prepared on-chain Conflicts pair,
\*        srih needs state roots in headers
Table ==
  [ valid             |-> K("none", R,  None, {}),
    on_chain          |-> K("self", R,  [idx |-> "tip", prev |-> FALSE, ts |-> "equal", hid |-> "f"], {}),
    \* two-step offer in the hdr_ahead_badroot states: first the correct block, then the block whose header (validly
    \* signed and linked, WRONG PrevStateRoot) was recorded ahead; described here as it is when the first step was
    \* refused (its index is then one too far); if the first step was accepted it is the next block with a wrong root
    badroot_next      |-> K("self", R,  [idx |-> "skip", prevroot |-> FALSE, hid |-> "f"], {"srih", "badroot"}),
    idx_minus1        |-> K("hdr",  RR, [idx |-> "tip"], {}),
    idx_plus1         |-> K("hdr",  RR, [idx |-> "skip"], {}),
    idx_far           |-> K("hdr",  RR, [idx |-> "far"], {}),
    prev_flip         |-> K("hdr",  RR, [prev |-> FALSE], {}),
    prev_older        |-> K("hdr",  RR, [prev |-> FALSE], {"h1"}),
    ts_equal          |-> K("hdr",  RR, [ts |-> "equal"], {}),
    ts_less           |-> K("hdr",  RR, [ts |-> "earlier"], {}),
    merkle_flip       |-> K("hdr",  RR, [merkle |-> FALSE], {}),
    srflag            |-> K("hdr",  RR, [srflag |-> FALSE], {}),
    prevroot_flip     |-> K("hdr",  RR, [prevroot |-> FALSE], {"srih"}),
    prevroot_older    |-> K("hdr",  RR, [prevroot |-> FALSE], {"srih", "h1"}),
    version           |-> K("hdr",  RR, [free |-> TRUE], {}),
    nonce             |-> K("hdr",  RR, [free |-> TRUE], {}),
    primary           |-> K("hdr",  RR, [free |-> TRUE], {}),
    primary_oob       |-> K("hdr",  RR, [free |-> TRUE], {}),   \* PrimaryIndex >= number of validators
    nextcons          |-> K("hdr",  RR, [free |-> TRUE], {}),
    wit_empty_inv     |-> K("wit",  R,  [wit |-> FALSE], {}),
    wit_empty_all     |-> K("wit",  R,  [wit |-> FALSE], {}),
    wit_wrong_set     |-> K("wit",  R,  [wit |-> FALSE], {}),
    wit_wrong_keys    |-> K("wit",  R,  [wit |-> FALSE], {}),
    wit_one_bad       |-> K("wit",  R,  [wit |-> FALSE], {}),
    wit_too_few       |-> K("wit",  R,  [wit |-> FALSE], {}),
    wit_wrong_net     |-> K("wit",  R,  [wit |-> FALSE], {}),
    wit_swapped       |-> K("wit",  R,  [wit |-> FALSE], {}),
    tx_reorder        |-> K("txs",  RR, None, {}),
    tx_drop           |-> K("txs",  RR, None, {}),
    \* the WHOLE transaction list of the (non-empty) block is dropped: raw = header of the correct block with no body
    tx_drop_all       |-> K("txs",  RR, None, {}),
    tx_dup            |-> K("txs",  RR, [txdef |-> "mutual"], {}),
    tx_dup_last_odd   |-> K("keep", R,  [txdef |-> "mutual"], {}),
    tx_alter          |-> K("txs",  RR, [txdef |-> "wit_new"], {}),
    tx_alter_wit      |-> K("keep", R,  [txdef |-> "wit_same"], {}),
    tx_expired        |-> K("txs",  RR, [txdef |-> "state"], {}),
    tx_vub_far        |-> K("txs",  RR, [txdef |-> "state"], {}),
    tx_nvb_future     |-> K("txs",  RR, [txdef |-> "state"], {}),
    tx_onchain_dup    |-> K("txs",  RR, [txdef |-> "state"], {"h1"}),
    tx_conflicts_onchain    |-> K("txs", RR, [txdef |-> "state"], {"h1"}),
    tx_conflicted_by_onchain |-> K("txs", RR, [txdef |-> "state"], {"prep"}),
    tx_underfunded    |-> K("txs",  RR, [txdef |-> "state"], {}),
    tx_netfee_zero    |-> K("txs",  RR, [txdef |-> "state"], {}),
    tx_bad_script     |-> K("txs",  RR, [txdef |-> "state"], {}),
    tx_overdraw       |-> K("txs",  RR, [txdef |-> "mutual"], {}),
    \* B and A with Conflicts(B): order in the block, A's fee relative to B's, A shares a signer with B or not
    tx_conflict_BA_low    |-> K("txs", RR, [txdef |-> "mutual"], {}),
    tx_conflict_BA_high   |-> K("txs", RR, [txdef |-> "mutual_evict"], {}),
    tx_conflict_AB_low    |-> K("txs", RR, [txdef |-> "mutual_evict"], {}),
    tx_conflict_AB_high   |-> K("txs", RR, [txdef |-> "mutual"], {}),
    tx_conflict_BA_foreign |-> K("txs", RR, [txdef |-> "mutual"], {"h1"}),
    tx_conflict_AB_foreign |-> K("txs", RR, [txdef |-> "mutual_evict"], {"h1"}),
    enc_truncated     |-> K("enc",  R,  None, {}),
    enc_trailing      |-> K("enc",  R,  None, {}),
    enc_nonminimal    |-> K("enc",  R,  None, {}) ]

Kinds == DOMAIN Table

Over(b, d) == [f \in DOMAIN b |-> IF f \in DOMAIN d THEN d[f] ELSE b[f]]

Attrs(k, f) ==
    LET e == Table[k]
        a == Over(Base, e.d) IN
    CASE e.touch = "hdr" -> [a EXCEPT !.hid = "f", !.wit = (f = "resealed")]
      [] e.touch = "txs" -> IF f = "raw" THEN [a EXCEPT !.merkle = FALSE] ELSE [a EXCEPT !.hid = "f"]
      [] OTHER -> a

\* does the case decode at all: "ok" | "fail" | "any" (wire-format strictness is not C06's subject)
Dec(k) == CASE k = "enc_truncated" -> "fail" [] k \in {"enc_trailing", "enc_nonminimal"} -> "any" [] OTHER -> "ok"

\* ---- chain-state kinds -> node state of the code-shaped model -------------
C1 == [hid |-> "c", rootok |-> TRUE]
NodeState(sk) ==
    [blkH |-> 1, led |-> <<"c">>,
     hdrs |-> CASE sk = "hdr_ahead" -> <<C1, C1>>
                [] sk = "hdr_ahead_badroot" -> <<C1, [hid |-> "f", rootok |-> FALSE]>>        \* exactly one header above the offered block's
                [] sk = "hdr_ahead_badroot2" -> <<C1, [hid |-> "f", rootok |-> FALSE], [hid |-> "g", rootok |-> TRUE]>>
                [] OTHER -> <<>>,
     pool |-> CASE sk = "pool_has" -> {"t", "u"} [] sk = "pool_other" -> {"u"} [] OTHER -> {}]

Height0(sk) == sk = "fresh"
BadRootStates == {"hdr_ahead_badroot", "hdr_ahead_badroot2"}

Applicable(sk, srih, vt, via, k, f) ==
    LET e == Table[k] IN
    /\ f \in e.fams
    /\ ("srih" \in e.need => srih)
    /\ ("h1" \in e.need => ~Height0(sk))
    /\ ("prep" \in e.need => sk \notin {"fresh"})
    /\ (sk \in BadRootStates => (srih /\ k \in {"valid", "badroot_next"} /\ via = "block"))
    /\ ("badroot" \in e.need => sk \in BadRootStates)
    /\ (~vt => sk = "mid")
    /\ (via = "header" => (sk \in {"mid", "hdr_ahead", "epoch"} /\ e.touch \in {"none", "hdr", "wit"} /\ k # "srflag" /\ vt))

Cases == {x \in [state : StateKinds, srih : SRIH, vt : VTs, via : Vias, kind : Kinds, family : RR] :
             Applicable(x.state, x.srih, x.vt, x.via, x.kind, x.family)}

Row(x) ==
    LET st == NodeState(x.state)
        a  == Attrs(x.kind, x.family)
    IN IF x.via = "block"
       THEN LET r == ImplAdd(st, a, x.vt) IN
            [case |-> x, dec |-> Dec(x.kind), attrs |-> a,
             valid |-> Valid(a, x.vt), must_accept |-> MustAccept(Abs(st), a),
             hdr_may |-> (HeaderOK(a) /\ st.hdrs = <<>>),
             pred |-> [acc |-> r.acc, stage |-> r.stage, hdr |-> (~r.acc /\ r.t.hdrs # st.hdrs)],
             abstract_ok |-> StepOK(Abs(st), a, r.acc, Abs(r.t), x.vt)]
       ELSE LET r == ImplHdr(st, a) IN
            [case |-> x, dec |-> Dec(x.kind), attrs |-> a,
             valid |-> HeaderOKAt(a, st.hdrs = <<>>), must_accept |-> FALSE,
             hdr_may |-> HeaderOKAt(a, st.hdrs = <<>>),
             pred |-> [acc |-> r.rec, stage |-> r.stage, hdr |-> r.rec],
             abstract_ok |-> HdrStepOK(Abs(st), a, r.rec, Abs(r.t))]

Init == c \in Cases
Next == UNCHANGED c
Spec == Init /\ [][Next]_c

Emit == PrintT(<<"@@CASE@@", ToJson(Row(c))>>)
\* the table only uses well-formed descriptions
TableWF == WF(Attrs(c.kind, c.family))
=============================================================================
