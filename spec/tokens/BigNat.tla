------------------------------- MODULE BigNat -------------------------------
(* Exact integer arithmetic beyond TLC's 32-bit integers, pure TLA+ (no Java override).
   A number is a sign-magnitude record [neg |-> BOOLEAN, mag |-> limbs]; limbs is a little-endian sequence of
   digits in 0..Base-1 with no leading (= trailing in the sequence) zero digit; zero is [neg |-> FALSE, mag |-> <<>>].
   With this normal form structural equality (=) is numeric equality.  Base = 2^15 keeps every intermediate
   value below 2^17.  GAS amounts (~5.2e15) need four limbs.  BigNatMC.tla checks these definitions
   exhaustively against TLC's own integers (small Base, all values of a range; Base 2^15 around the limb
   boundaries). *)
EXTENDS Integers, Sequences

Base == 32768

Limb(m, i) == IF i <= Len(m) THEN m[i] ELSE 0

IsMag(m) == /\ DOMAIN m = 1..Len(m)
            /\ \A i \in 1..Len(m) : m[i] \in 0..(Base - 1)
            /\ Len(m) > 0 => m[Len(m)] # 0

RECURSIVE Strip(_)
Strip(m) == IF Len(m) > 0 /\ m[Len(m)] = 0 THEN Strip(SubSeq(m, 1, Len(m) - 1)) ELSE m

RECURSIVE AddFrom(_, _, _, _)
AddFrom(a, b, i, c) ==            \* digits i.. of a + b with incoming carry c
    IF i > Len(a) /\ i > Len(b) THEN (IF c = 0 THEN <<>> ELSE <<c>>)
    ELSE LET s == Limb(a, i) + Limb(b, i) + c
         IN  <<s % Base>> \o AddFrom(a, b, i + 1, s \div Base)
MagAdd(a, b) == AddFrom(a, b, 1, 0)

RECURSIVE CmpFrom(_, _, _)
CmpFrom(a, b, i) ==               \* equal lengths, from the most significant digit down
    IF i = 0 THEN 0
    ELSE IF a[i] # b[i] THEN (IF a[i] < b[i] THEN -1 ELSE 1)
    ELSE CmpFrom(a, b, i - 1)
MagCmp(a, b) == IF Len(a) # Len(b) THEN (IF Len(a) < Len(b) THEN -1 ELSE 1) ELSE CmpFrom(a, b, Len(a))

RECURSIVE SubFrom(_, _, _, _)
SubFrom(a, b, i, w) ==            \* digits i.. of a - b (a >= b) with incoming borrow w
    IF i > Len(a) THEN <<>>
    ELSE LET d == Limb(a, i) - Limb(b, i) - w
         IN  IF d < 0 THEN <<d + Base>> \o SubFrom(a, b, i + 1, 1) ELSE <<d>> \o SubFrom(a, b, i + 1, 0)
MagSub(a, b) == Strip(SubFrom(a, b, 1, 0))

-----------------------------------------------------------------------------
Zero == [neg |-> FALSE, mag |-> <<>>]
Mk(neg, mag) == [neg |-> neg /\ mag # <<>>, mag |-> mag]

WellFormed(x) == /\ DOMAIN x = {"neg", "mag"}
                 /\ x.neg \in BOOLEAN
                 /\ IsMag(x.mag)
                 /\ x.mag = <<>> => ~x.neg

IsNeg(x) == x.neg
Neg(x) == Mk(~x.neg, x.mag)

Add(x, y) ==
    IF x.neg = y.neg THEN Mk(x.neg, MagAdd(x.mag, y.mag))
    ELSE LET c == MagCmp(x.mag, y.mag)
         IN  IF c = 0 THEN Zero
             ELSE IF c > 0 THEN Mk(x.neg, MagSub(x.mag, y.mag))
             ELSE Mk(y.neg, MagSub(y.mag, x.mag))

Sub(x, y) == Add(x, Neg(y))

Cmp(x, y) ==
    IF x.neg # y.neg THEN (IF x.neg THEN -1 ELSE 1)
    ELSE IF x.neg THEN MagCmp(y.mag, x.mag) ELSE MagCmp(x.mag, y.mag)

Equal(x, y) == Cmp(x, y) = 0

RECURSIVE SumFrom(_, _)
SumFrom(s, i) == IF i > Len(s) THEN Zero ELSE Add(s[i], SumFrom(s, i + 1))
Sum(s) == SumFrom(s, 1)           \* sum of a sequence of numbers

\* conversions with TLC integers (only for values TLC can hold)
RECURSIVE MagOf(_)
MagOf(n) == IF n = 0 THEN <<>> ELSE <<n % Base>> \o MagOf(n \div Base)
FromInt(n) == IF n < 0 THEN Mk(TRUE, MagOf(0 - n)) ELSE Mk(FALSE, MagOf(n))
RECURSIVE MagVal(_, _)
MagVal(m, i) == IF i > Len(m) THEN 0 ELSE m[i] + Base * MagVal(m, i + 1)
ToInt(x) == IF x.neg THEN 0 - MagVal(x.mag, 1) ELSE MagVal(x.mag, 1)

\* 100 000 000 = 3051 * 2^15 + 24832, built from the digits so that it does not depend on Base
RECURSIVE Times(_, _)
Times(x, k) == IF k = 0 THEN Zero ELSE Add(x, Times(x, k - 1))       \* small k only
HundredMillion == LET t4 == FromInt(10000) IN Times(Times(t4, 100), 100)
=============================================================================
