\* generation, thorough tier: NEO supply 9, longer behaviours
SPECIFICATION SimSpec
CONSTANTS
  User = {"u1", "u2", "u3"}
  Cand = {"c1", "c2"}
  NeoTotal = 9
  MaxGas = 90
  MaxAmt = 4
  Gas0 = 40
  Rich = "u1"
  Bugs = {}
  Generate = TRUE
  Depth = 150
INVARIANT Emit
CHECK_DEADLOCK FALSE
