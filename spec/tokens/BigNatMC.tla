------------------------------ MODULE BigNatMC ------------------------------
(* Cross-check of BigNat against TLC's integers.  Config MC_BigNat_small.cfg overrides Base by 4 and checks every
   pair of a range exhaustively (carries and borrows through several limbs); MC_BigNat.cfg keeps Base = 2^15 and
   checks values around the limb boundaries. *)
EXTENDS BigNat, TLC
CONSTANTS Values, TValues        \* sets of TLC integers (pairs / triples)
SmallBase == 4
Small == -70..70
Tiny == -9..9
Around == LET P == {0, 1, 2, 32767, 32768, 32769, 65535, 65536, 1073741823, 1073741824, 1073741825, 2147483647, 100000000}
          IN P \cup {0 - p : p \in P}

Sign(n) == IF n < 0 THEN -1 ELSE IF n > 0 THEN 1 ELSE 0
Fits(n) == n >= -2147483647 /\ n <= 2147483647
Safe(a, b) == (a >= 0 /\ b <= 0) \/ (a <= 0 /\ b >= 0) \/ (a >= 0 /\ b >= 0 /\ a <= 2147483647 - b) \/ (a <= 0 /\ b <= 0 /\ a >= -2147483647 - b)

Pair(a, b) ==
    LET x == FromInt(a) y == FromInt(b) IN
    /\ WellFormed(x) /\ ToInt(x) = a
    /\ Sign(Cmp(x, y)) = Sign(IF a < b THEN -1 ELSE IF a > b THEN 1 ELSE 0)
    /\ Equal(x, y) = (a = b) /\ (x = y) = (a = b)
    /\ Safe(a, b) => (WellFormed(Add(x, y)) /\ Add(x, y) = FromInt(a + b))
    /\ Safe(a, 0 - b) => (WellFormed(Sub(x, y)) /\ Sub(x, y) = FromInt(a - b))
    /\ IsNeg(x) = (a < 0)
    /\ Neg(Neg(x)) = x

AllPairs == \A a \in Values, b \in Values : Pair(a, b)
Triples == \A a \in TValues, b \in TValues, c \in TValues :
              (Safe(a, b) /\ Safe(a + b, c)) => Sum(<<FromInt(a), FromInt(b), FromInt(c)>>) = FromInt(a + b + c)
Supply == /\ WellFormed(HundredMillion)
          /\ (Base = 32768 => (HundredMillion = [neg |-> FALSE, mag |-> <<24832, 3051>>] /\ ToInt(HundredMillion) = 100000000))
          /\ (Base = 4 => ToInt(HundredMillion) = 100000000)
\* beyond 32 bits: (2^15)^3 * 5 + 7 behaves as a 4-limb number
Wide == Base = 32768 =>
        LET big == [neg |-> FALSE, mag |-> <<7, 0, 0, 5>>] one == FromInt(1) IN
        /\ WellFormed(big)
        /\ Sub(Add(big, one), big) = one
        /\ Sub(big, Add(big, one)) = FromInt(-1)
        /\ Sub(big, FromInt(8)) = [neg |-> FALSE, mag |-> <<32767, 32767, 32767, 4>>]
        /\ Add(Sub(big, FromInt(8)), FromInt(8)) = big
        /\ Cmp(big, Sub(big, one)) = 1 /\ Cmp(Neg(big), one) = -1
        /\ Sum(<<big, Neg(big), big, Neg(big)>>) = Zero

ASSUME AllPairs /\ Triples /\ Supply /\ Wide

VARIABLE dummy
Init == dummy = 0
Next == UNCHANGED dummy
=============================================================================
