------------------------------- MODULE Tokens -------------------------------
(* Implementation-shaped model of the native NEO / GAS / Notary bookkeeping of neo-go (pkg/core/native:
   native_nep17.go, native_neo.go, native_gas.go, notary.go).  One action per operation; every action does what
   the CODE does: balances and supplies are adjusted incrementally, the vote tallies and the voters count are
   moved by the amount transferred / the balance of the voter, a candidate record is dropped when it is
   unregistered and has no votes, an emptied NEO account loses its record (and with it its vote), deposits are
   tracked next to the GAS balance of the Notary contract.  TLC checks that these incremental rules preserve the
   laws of TokenLaws (the judge), which recompute every figure from scratch, and that the balance change of every
   step equals the net of the Transfer events the step emits (a block is a sequence of steps; the law is additive).

   Amounts of rewards / claims / fees are NOT predicted: Mint, Burn and the claim on NEO balance change take any
   amount.  Bugs is a set of named deviations used for the non-vacuity self-test (MC_Tokens_bug*.cfg). *)
EXTENDS Integers, Sequences, FiniteSets, TLC

CONSTANTS User,        \* ordinary accounts (strings)
          Cand,        \* candidate keys (strings)
          NeoTotal,    \* total NEO (the model's 100 000 000)
          MaxGas,      \* bound on the GAS supply (keeps the model finite)
          MaxAmt,      \* amounts range over 0..MaxAmt
          Gas0,        \* initial GAS
          Rich,        \* the account holding everything initially (the validators' address of the genesis block)
          Bugs,        \* named deviations, {} for the faithful model
          Generate     \* TRUE: behaviour generation (no spontaneous Mint / Burn / claims; the real chain supplies them)

None == "none"
Nobody == ""
Notary == "notary"
Acct == User \cup {Notary}
Absent == [present |-> FALSE, registered |-> FALSE, votes |-> 0]

VARIABLES neo, gas, neoSupply, gasSupply, voteOf, cand, voters, deposit,
          evs,      \* Transfer events emitted by the last step
          last      \* the last step (label and arguments)
ledger == <<neo, gas, neoSupply, gasSupply, voteOf, cand, voters, deposit>>
vars == <<neo, gas, neoSupply, gasSupply, voteOf, cand, voters, deposit, evs, last>>

L == INSTANCE TokenLaws WITH Z <- 0, Plus <- LAMBDA x, y : x + y, Minus <- LAMBDA x, y : x - y,
                             IsNeg <- LAMBDA x : x < 0, NeoTotal <- NeoTotal, Nobody <- Nobody

\* the ledger state as the judge sees it
Abs == [neoSupply |-> neoSupply, gasSupply |-> gasSupply, voters |-> voters,
        neo |-> neo, gas |-> gas,
        voteOf |-> [a \in {u \in User : voteOf[u] # None} |-> voteOf[a]],
        cand |-> [c \in {k \in Cand : cand[k].present} |-> [registered |-> cand[c].registered, votes |-> cand[c].votes]],
        deposit |-> deposit, notary |-> Notary]

Ev(tok, from, to, amt) == [tok |-> tok, from |-> from, to |-> to, amt |-> amt]
Has(b) == b \in Bugs

-----------------------------------------------------------------------------
(* code-shaped helpers *)

\* dropCandidateIfZero (native_neo.go)
DropIfZero(cd) == IF ~cd.registered /\ cd.votes = 0 THEN Absent ELSE cd

\* ModifyAccountVotes: move d votes on the candidate v voted for (no drop when it is the new vote)
ModVotes(cs, v, d, isNew) ==
    IF v = None THEN cs
    ELSE LET cd == [cs[v] EXCEPT !.votes = @ + d]
         IN  [cs EXCEPT ![v] = IF isNew THEN cd ELSE DropIfZero(cd)]

\* NEO.increaseBalance with a non-zero amount d on account a, applied to the triple <<neo, voteOf, cand, voters>>
IncNeo(t, a, d) ==
    LET v  == t.voteOf[a]
        nb == t.neo[a] + d
    IN  [neo    |-> [t.neo EXCEPT ![a] = nb],
         cand   |-> ModVotes(t.cand, v, IF Has("NoTallyOnCredit") /\ d > 0 THEN 0 ELSE d, FALSE),
         voters |-> IF v # None /\ ~(Has("NoTurnoutOnDebit") /\ d < 0) THEN t.voters + d ELSE t.voters,
         voteOf |-> IF nb = 0 THEN [t.voteOf EXCEPT ![a] = None] ELSE t.voteOf]   \* emptied account: record deleted
Cur == [neo |-> neo, voteOf |-> voteOf, cand |-> cand, voters |-> voters]
SetNeoSide(t) == /\ neo' = t.neo /\ voteOf' = t.voteOf /\ cand' = t.cand /\ voters' = t.voters

\* GAS claimed on a NEO balance change / vote: any amount (0 = nothing to claim), minted with an event
Claims == IF Generate THEN {0} ELSE 0..1
MintEvs(a, g) == IF g = 0 \/ Has("ClaimWithoutEvent") THEN <<>> ELSE <<Ev("gas", Nobody, a, g)>>

-----------------------------------------------------------------------------
Init ==
    /\ neo = [a \in Acct |-> IF a = Rich THEN NeoTotal ELSE 0]
    /\ gas = [a \in Acct |-> IF a = Rich THEN Gas0 ELSE 0]
    /\ neoSupply = NeoTotal /\ gasSupply = Gas0
    /\ voteOf = [a \in User |-> None]
    /\ cand = [c \in Cand |-> Absent]
    /\ voters = 0
    /\ deposit = [a \in User |-> 0]
    /\ evs = <<>>
    /\ last = [op |-> "init"]

\* NEO.transfer(from, to, x): nep17TokenNative.transferDeferrable + NEO.increaseBalance.  Self- and zero-transfers
\* change no balance but emit the event and claim GAS for the sender.
TransferNEO(from, to, x, g1, g2) ==
    /\ x <= neo[from]
    /\ gasSupply + g1 + g2 <= MaxGas
    /\ IF from = to \/ x = 0
       THEN /\ g2 = 0
            /\ IF Has("SelfTransferCredits") /\ x > 0 THEN SetNeoSide(IncNeo(Cur, to, x)) ELSE UNCHANGED <<neo, voteOf, cand, voters>>
            /\ gas' = [gas EXCEPT ![from] = @ + g1]
            /\ gasSupply' = gasSupply + g1
            /\ evs' = <<Ev("neo", from, to, x)>> \o MintEvs(from, g1)
       ELSE /\ SetNeoSide(IncNeo(IncNeo(Cur, from, 0 - x), to, x))
            /\ gas' = [gas EXCEPT ![from] = @ + g1, ![to] = @ + g2]
            /\ gasSupply' = gasSupply + g1 + g2
            /\ evs' = <<Ev("neo", from, to, x)>> \o MintEvs(from, g1) \o MintEvs(to, g2)
    /\ UNCHANGED <<neoSupply, deposit>>
    /\ last' = [op |-> "transferNEO", from |-> from, to |-> to, x |-> x]

\* GAS.transfer(from, to, x) between ordinary accounts
TransferGAS(from, to, x) ==
    /\ x <= gas[from]
    /\ IF from = to \/ x = 0 THEN UNCHANGED gas
       ELSE gas' = [gas EXCEPT ![from] = @ - x, ![to] = @ + x]
    /\ evs' = <<Ev("gas", from, to, x)>>
    /\ UNCHANGED <<neo, neoSupply, gasSupply, voteOf, cand, voters, deposit>>
    /\ last' = [op |-> "transferGAS", from |-> from, to |-> to, x |-> x]

\* NEO.vote(a, c) / NEO.vote(a, null): voteInternalUncheckedDeferrable
VoteTo(a, c, g) ==
    /\ neo[a] > 0                                  \* the account record exists
    /\ c # None => (cand[c].present /\ cand[c].registered)
    /\ c = None => voteOf[a] # None                \* (un-voting a non-voter changes nothing)
    /\ gasSupply + g <= MaxGas
    /\ LET old == voteOf[a]
           v1  == IF (old = None) # (c = None)
                  THEN (IF c = None THEN (IF Has("UnvoteKeepsTurnout") THEN voters ELSE voters - neo[a]) ELSE voters + neo[a])
                  ELSE voters
           c1  == ModVotes(cand, old, 0 - neo[a], FALSE)
           c2  == ModVotes(c1, c, neo[a], TRUE)
       IN  /\ voters' = v1 /\ cand' = c2 /\ voteOf' = [voteOf EXCEPT ![a] = c]
    /\ gas' = [gas EXCEPT ![a] = @ + g] /\ gasSupply' = gasSupply + g
    /\ evs' = MintEvs(a, g)
    /\ UNCHANGED <<neo, neoSupply, deposit>>
    /\ last' = [op |-> IF c = None THEN "unvote" ELSE "vote", a |-> a, c |-> c]

Register(c) ==
    /\ ~(cand[c].present /\ cand[c].registered)
    /\ cand' = [cand EXCEPT ![c] = [present |-> TRUE, registered |-> TRUE, votes |-> IF cand[c].present THEN cand[c].votes ELSE 0]]
    /\ evs' = <<>>
    /\ UNCHANGED <<neo, gas, neoSupply, gasSupply, voteOf, voters, deposit>>
    /\ last' = [op |-> "register", c |-> c]

Unregister(c) ==
    /\ cand[c].present /\ cand[c].registered
    /\ cand' = [cand EXCEPT ![c] = DropIfZero([@ EXCEPT !.registered = FALSE])]
    /\ evs' = <<>>
    /\ UNCHANGED <<neo, gas, neoSupply, gasSupply, voteOf, voters, deposit>>
    /\ last' = [op |-> "unregister", c |-> c]

\* nep17TokenNative.MintDeferrable / addTokens: primary's network fee, committee reward, notary / oracle rewards
Mint(a, x) ==
    /\ ~Generate /\ x > 0 /\ gasSupply + x <= MaxGas
    /\ gas' = [gas EXCEPT ![a] = @ + x]
    /\ gasSupply' = IF Has("MintKeepsSupply") THEN gasSupply ELSE gasSupply + x
    /\ evs' = <<Ev("gas", Nobody, a, x)>>
    /\ UNCHANGED <<neo, neoSupply, voteOf, cand, voters, deposit>>
    /\ last' = [op |-> "mint", a |-> a, x |-> x]

\* nep17TokenNative.Burn: system + network fee of a transaction burnt from its sender in GAS.OnPersist.
\* A faulting transaction (FaultTx) contributes exactly this and nothing else.
Burn(a, x, label) ==
    /\ x > 0 /\ x <= gas[a]
    /\ gas' = [gas EXCEPT ![a] = @ - x]
    /\ gasSupply' = IF Has("BurnKeepsSupply") THEN gasSupply ELSE gasSupply - x
    /\ evs' = <<Ev("gas", a, Nobody, x)>>
    /\ UNCHANGED <<neo, neoSupply, voteOf, cand, voters, deposit>>
    /\ last' = [op |-> label, a |-> a, x |-> x]

\* GAS.transfer(from, Notary, x, [for, till]) -> Notary.onNEP17Payment
Deposit(from, for, x) ==
    /\ x <= gas[from]
    /\ x > 0 \/ deposit[for] > 0                  \* a first deposit cannot be empty
    /\ gas' = [gas EXCEPT ![from] = @ - x, ![Notary] = @ + x]
    /\ deposit' = [deposit EXCEPT ![for] = @ + x]
    /\ evs' = <<Ev("gas", from, Notary, x)>>
    /\ UNCHANGED <<neo, neoSupply, gasSupply, voteOf, cand, voters>>
    /\ last' = [op |-> "deposit", from |-> from, for |-> for, x |-> x]

\* Notary.withdraw(a, to): the whole deposit leaves the Notary account
Withdraw(a, to) ==
    /\ deposit[a] > 0
    /\ gas' = [gas EXCEPT ![Notary] = @ - deposit[a], ![to] = @ + deposit[a]]
    /\ deposit' = [deposit EXCEPT ![a] = IF Has("WithdrawKeepsDeposit") THEN @ ELSE 0]
    /\ evs' = <<Ev("gas", Notary, to, deposit[a])>>
    /\ UNCHANGED <<neo, neoSupply, gasSupply, voteOf, cand, voters>>
    /\ last' = [op |-> "withdraw", a |-> a, to |-> to]

\* a notary-assisted transaction sent by the Notary contract and paid by a's deposit:
\* GAS.OnPersist burns the fees from the Notary account, Notary.OnPersist charges the deposit
NotaryFee(a, f) ==
    /\ f > 0 /\ f <= deposit[a]
    /\ gas' = [gas EXCEPT ![Notary] = @ - f]
    /\ gasSupply' = gasSupply - f
    /\ deposit' = [deposit EXCEPT ![a] = IF Has("FeeNotCharged") THEN @ ELSE @ - f]
    /\ evs' = <<Ev("gas", Notary, Nobody, f)>>
    /\ UNCHANGED <<neo, neoSupply, voteOf, cand, voters>>
    /\ last' = [op |-> "notaryFee", a |-> a, x |-> f]

Next ==
    \/ \E from, to \in User, x \in 0..MaxAmt, g1, g2 \in Claims : TransferNEO(from, to, x, g1, g2)
    \/ \E from, to \in User, x \in 0..MaxAmt : TransferGAS(from, to, x)
    \/ \E a \in User, c \in Cand \cup {None}, g \in Claims : VoteTo(a, c, g)
    \/ \E c \in Cand : Register(c) \/ Unregister(c)
    \/ \E a \in User, x \in 1..MaxAmt : Mint(a, x)
    \/ \E a \in User, x \in 1..MaxAmt : ~Generate /\ Burn(a, x, "burn")
    \/ \E a \in User, x \in 1..1 : Generate /\ Burn(a, x, "faultTx")
    \/ \E from, for \in User, x \in 0..MaxAmt : Deposit(from, for, x)
    \/ \E a, to \in User : Withdraw(a, to)
    \/ \E a \in User, f \in 1..MaxAmt : NotaryFee(a, f)

Spec == Init /\ [][Next]_vars

-----------------------------------------------------------------------------
(* what TLC checks *)
TypeOK == /\ \A a \in Acct : neo[a] \in 0..NeoTotal /\ gas[a] \in 0..MaxGas
          /\ \A a \in User : deposit[a] \in 0..MaxGas /\ voteOf[a] \in Cand \cup {None}
          /\ \A c \in Cand : cand[c].votes \in 0..NeoTotal /\ (~cand[c].present => cand[c] = Absent)
          /\ neo[Notary] = 0
Conserved == L!Conserved(Abs)                                  \* all state laws of the judge
StepDelta == L!BlockFailures([neo |-> neo, gas |-> gas], [neo |-> neo', gas |-> gas'], evs') = {}
DeltaProp == [][StepDelta]_vars                                \* BalanceDelta for every step
\* the code's own expectation: a vote always points at an existing candidate record
VoteHasRecord == \A a \in User : voteOf[a] # None => cand[voteOf[a]].present
=============================================================================
