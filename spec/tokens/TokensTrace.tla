----------------------------- MODULE TokensTrace -----------------------------
(* Judges traces recorded from a real chain (harness/c05tokens) against TokenLaws, with BigNat arithmetic.
   One line per block boundary:
     init  : the ledger after the genesis block (height 0) with the Transfer events of the genesis executions;
             starts a new history (the "previous" balances are empty: everything must have been minted with an event)
     block : the ledger after block h with the Transfer events of the block's successful (HALT) executions
             (OnPersist, every transaction, PostPersist)
   Every field is what the driver read back from storage (Blockchain.SeekStorage over the NEO / GAS / Notary
   contract ids) or from the stored execution results; amounts are {neg, mag} limb records.
   Every state law is evaluated in every logged state, BalanceDelta for every block.  The module is total and
   reporting (TraceIO): a falsified law is printed as @@FAIL@@ and the next line is still judged. *)
EXTENDS TraceIO, FiniteSets

B == INSTANCE BigNat
L == INSTANCE TokenLaws WITH Z <- B!Zero, Plus <- LAMBDA x, y : B!Add(x, y), Minus <- LAMBDA x, y : B!Sub(x, y),
                             IsNeg <- LAMBDA x : B!IsNeg(x), NeoTotal <- B!HundredMillion, Nobody <- ""

VARIABLES l, prev
vars == <<l, prev>>

Nothing == [neo |-> <<>>, gas |-> <<>>, h |-> -1]

StateOf(e) == [neoSupply |-> e.neoSupply, gasSupply |-> e.gasSupply, voters |-> e.voters, neo |-> e.neo, gas |-> e.gas,
               voteOf |-> e.voteOf, cand |-> e.cand, deposit |-> e.deposit, notary |-> e.notary]

\* the recorded line is well-formed (a malformed line is a defect of the harness, not of the code: exit 2)
WFMap(f) == \A a \in DOMAIN f : B!WellFormed(f[a])
WellFormedLine(e) ==
    /\ B!WellFormed(e.neoSupply) /\ B!WellFormed(e.gasSupply) /\ B!WellFormed(e.voters)
    /\ WFMap(e.neo) /\ WFMap(e.gas) /\ WFMap(e.deposit)
    /\ \A c \in DOMAIN e.cand : B!WellFormed(e.cand[c].votes) /\ e.cand[c].registered \in BOOLEAN
    /\ \A i \in 1..Len(e.transfers) : /\ B!WellFormed(e.transfers[i].amt)
                                      /\ e.transfers[i].tok \in {"neo", "gas"}
    /\ DOMAIN e.voteOf \subseteq DOMAIN e.neo
    /\ IF e.event = "init" THEN e.h = 0 ELSE e.h = prev.h + 1

Init == l = 1 /\ prev = Nothing

Step ==
    /\ l <= Len(TLog)
    /\ l' = l + 1
    /\ LET e == TLog[l]
           s == StateOf(e)
           before == IF e.event = "init" THEN Nothing ELSE prev
           F == IF ~WellFormedLine(e) THEN {"Malformed"}
                ELSE L!StateFailures(s) \cup L!BlockFailures(before, s, e.transfers)
       IN  /\ prev' = [neo |-> e.neo, gas |-> e.gas, h |-> e.h]
           /\ Report(l, F, [hist |-> e.hist, h |-> e.h,
                            badcand |-> IF "CandidateVotes" \in F THEN L!BadCandidates(s) ELSE {},
                            unbalancedNEO |-> IF "BalanceDeltaNEO" \in F THEN L!Unbalanced(before.neo, s.neo, e.transfers, "neo") ELSE {},
                            unbalancedGAS |-> IF "BalanceDeltaGAS" \in F THEN L!Unbalanced(before.gas, s.gas, e.transfers, "gas") ELSE {}])

TraceSpec == Init /\ [][Step]_vars
=============================================================================
