\* Base overridden by 4: every pair of -70..70 (up to 4 limbs) and every triple of -9..9, exhaustive
INIT Init
NEXT Next
CONSTANTS
  Base <- SmallBase
  Values <- Small
  TValues <- Tiny
