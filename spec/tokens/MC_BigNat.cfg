\* Base = 2^15: values around the limb boundaries and the 32-bit boundary
INIT Init
NEXT Next
CONSTANTS
  Values <- Around
  TValues <- Around
