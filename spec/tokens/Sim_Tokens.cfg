\* generation: 3 accounts, 2 candidates, NEO supply 6, amounts 0..3; GAS plentiful
SPECIFICATION SimSpec
CONSTANTS
  User = {"u1", "u2", "u3"}
  Cand = {"c1", "c2"}
  NeoTotal = 6
  MaxGas = 60
  MaxAmt = 3
  Gas0 = 30
  Rich = "u1"
  Bugs = {}
  Generate = TRUE
  Depth = 60
INVARIANT Emit
CHECK_DEADLOCK FALSE
