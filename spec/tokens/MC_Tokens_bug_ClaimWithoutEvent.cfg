\* non-vacuity self-test: the named deviation ClaimWithoutEvent must be caught (constants of MC_Tokens_neo.cfg)
SPECIFICATION Spec
CONSTANTS
  User = {"u1", "u2", "u3"}
  Cand = {"c1", "c2"}
  NeoTotal = 3
  MaxGas = 1
  MaxAmt = 3
  Gas0 = 0
  Rich = "u1"
  Bugs = {"ClaimWithoutEvent"}
  Generate = FALSE
INVARIANTS Conserved
PROPERTY DeltaProp
VIEW ledger
CHECK_DEADLOCK FALSE
