\* exhaustive (thorough tier): 3 accounts (+ the Notary contract), 2 candidates, amounts 0..3, NEO supply 3, GAS supply <= 4
SPECIFICATION Spec
CONSTANTS
  User = {"u1", "u2", "u3"}
  Cand = {"c1", "c2"}
  NeoTotal = 3
  MaxGas = 4
  MaxAmt = 3
  Gas0 = 2
  Rich = "u1"
  Bugs = {}
  Generate = FALSE
INVARIANTS TypeOK Conserved VoteHasRecord
PROPERTY DeltaProp
VIEW ledger
CHECK_DEADLOCK FALSE
