------------------------------ MODULE TokensSim ------------------------------
(* Behaviour generator (tlc -simulate): Tokens in generation mode (no spontaneous Mint / Burn / claims - the real
   chain produces fees, rewards and claims itself) plus a history variable printed as JSON at the depth bound.
   Every history element carries the step and the governance side of the state the model predicts after it
   (NEO balances, votes, candidate records, voters count); harness/c05tokens turns each step into a real
   transaction (amounts scaled) and reports a difference between prediction and chain as drift.
   The mix keeps GAS-only steps (many parameters, little interplay) rare. *)
EXTENDS Tokens, Json

CONSTANT Depth
VARIABLE hist

GenNext ==
    \/ \E from, to \in User, x \in 0..MaxAmt : TransferNEO(from, to, x, 0, 0)
    \/ \E a \in User, c \in Cand \cup {None} : VoteTo(a, c, 0)
    \/ \E a \in User, c \in Cand \cup {None} : VoteTo(a, c, 0)
    \/ \E c \in Cand : Register(c) \/ Unregister(c)
    \/ \E from, to \in User : from # to /\ TransferGAS(from, to, 1)
    \/ \E a \in User : Burn(a, 1, "faultTx")
    \/ \E from, for \in User, x \in 1..2 : Deposit(from, for, x)
    \/ \E a \in User : Withdraw(a, a)
    \/ \E a \in User : NotaryFee(a, 1)

SimInit == Init /\ hist = <<>>
SimNext == /\ GenNext
           /\ hist' = Append(hist, [act |-> last', neo |-> [u \in User |-> neo'[u]], voteOf |-> voteOf',
                                    cand |-> cand', voters |-> voters'])
SimSpec == SimInit /\ [][SimNext]_<<vars, hist>>
Emit == Len(hist) # Depth \/ PrintT(<<"@@HIST@@", ToJson(hist)>>)
=============================================================================
