------------------------------ MODULE TokenLaws ------------------------------
(* THE JUDGE of property C05: what the property statement says about one ledger state at a block boundary and
   about two consecutive block boundaries, and nothing more.  The module is generic in the arithmetic
   (Z, Plus, Minus, IsNeg): Tokens.tla instantiates it with TLC's integers (exhaustive checking of the
   implementation-shaped model), TokensTrace.tla with BigNat (states read from the storage of a real chain).
   Equality of amounts is structural equality, which is numeric equality for both instantiations.

   A ledger state s is a record
     neoSupply, gasSupply : amounts     total-supply items of the NEO / GAS contracts
     neo, gas             : account -> amount (accounts that are absent hold nothing)
     voteOf               : account -> candidate key, only for accounts that currently vote
     cand                 : candidate key -> [registered, votes]   the candidate records that exist
     voters               : amount       the "voters count" item of the NEO contract
     deposit              : account -> amount   notary deposits
     notary               : the account of the Notary contract
   A Transfer event is [tok ("neo"/"gas"), from, to, amt]; from / to = Nobody for mint / burn. *)
EXTENDS Sequences, FiniteSets, FiniteSetsExt

CONSTANTS Z, Plus(_, _), Minus(_, _), IsNeg(_),
          NeoTotal,        \* 100 000 000 in the arithmetic used
          Nobody           \* the null party of a Transfer event

Bal(f, a) == IF a \in DOMAIN f THEN f[a] ELSE Z
SumOver(f, S) == FoldSet(LAMBDA a, acc : Plus(acc, Bal(f, a)), Z, S)
Total(f) == SumOver(f, DOMAIN f)

VotersFor(s, c) == {a \in DOMAIN s.voteOf : s.voteOf[a] = c}
Voted(s) == {s.voteOf[a] : a \in DOMAIN s.voteOf}
Votes(s, c) == IF c \in DOMAIN s.cand THEN s.cand[c].votes ELSE Z

(* ---- "At every block boundary ..." ---- *)
NeoSupplyFixed(s) == s.neoSupply = NeoTotal
NeoSupplyIsSum(s) == s.neoSupply = Total(s.neo)
GasSupplyIsSum(s) == s.gasSupply = Total(s.gas)
\* every candidate's vote count equals the NEO held by the accounts voting for it (an unregistered candidate that
\* is still voted for included; a voted-for key without a record counts as a record with zero votes)
CandidateVotes(s) == \A c \in DOMAIN s.cand \cup Voted(s) : Votes(s, c) = SumOver(s.neo, VotersFor(s, c))
VotersCount(s) == s.voters = SumOver(s.neo, DOMAIN s.voteOf)
NotaryBacked(s) == Bal(s.gas, s.notary) = Total(s.deposit)
NonNegative(s) == /\ \A a \in DOMAIN s.neo : ~IsNeg(s.neo[a])
                  /\ \A a \in DOMAIN s.gas : ~IsNeg(s.gas[a])
                  /\ \A a \in DOMAIN s.deposit : ~IsNeg(s.deposit[a])

BadCandidates(s) == {c \in DOMAIN s.cand \cup Voted(s) : Votes(s, c) # SumOver(s.neo, VotersFor(s, c))}

(* ---- "... the change of its balance over a block equals the net amount of the Transfer events emitted for it
        by successful executions in that block" ---- *)
RECURSIVE Flow(_, _, _, _, _)
Flow(evs, tok, a, side, i) ==    \* total amount of the events i.. of token tok whose `side` party is a
    IF i > Len(evs) THEN Z
    ELSE IF evs[i].tok = tok /\ evs[i][side] = a THEN Plus(evs[i].amt, Flow(evs, tok, a, side, i + 1))
    ELSE Flow(evs, tok, a, side, i + 1)
Net(evs, tok, a) == Minus(Flow(evs, tok, a, "to", 1), Flow(evs, tok, a, "from", 1))
Parties(evs, tok) == {evs[i].from : i \in {j \in 1..Len(evs) : evs[j].tok = tok}}
                     \cup {evs[i].to : i \in {j \in 1..Len(evs) : evs[j].tok = tok}}
Touched(before, after, evs, tok) == (DOMAIN before \cup DOMAIN after \cup Parties(evs, tok)) \ {Nobody}
Unbalanced(before, after, evs, tok) ==
    {a \in Touched(before, after, evs, tok) : Minus(Bal(after, a), Bal(before, a)) # Net(evs, tok, a)}
BalanceDelta(before, after, evs, tok) == Unbalanced(before, after, evs, tok) = {}

(* names of the laws a state / a block falsifies *)
If(c, n) == IF c THEN {} ELSE {n}
StateFailures(s) ==
    If(NeoSupplyFixed(s), "NeoSupplyFixed") \cup If(NeoSupplyIsSum(s), "NeoSupplyIsSum")
    \cup If(GasSupplyIsSum(s), "GasSupplyIsSum") \cup If(CandidateVotes(s), "CandidateVotes")
    \cup If(VotersCount(s), "VotersCount") \cup If(NotaryBacked(s), "NotaryBacked")
    \cup If(NonNegative(s), "NonNegative")
BlockFailures(s0, s1, evs) ==
    If(BalanceDelta(s0.neo, s1.neo, evs, "neo"), "BalanceDeltaNEO")
    \cup If(BalanceDelta(s0.gas, s1.gas, evs, "gas"), "BalanceDeltaGAS")
Conserved(s) == StateFailures(s) = {}
=============================================================================
