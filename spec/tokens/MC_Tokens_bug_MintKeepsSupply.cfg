\* non-vacuity self-test: the named deviation MintKeepsSupply must be caught (constants of MC_Tokens_gas.cfg)
SPECIFICATION Spec
CONSTANTS
  User = {"u1", "u2", "u3"}
  Cand = {"c1"}
  NeoTotal = 1
  MaxGas = 4
  MaxAmt = 3
  Gas0 = 3
  Rich = "u1"
  Bugs = {"MintKeepsSupply"}
  Generate = FALSE
INVARIANTS Conserved
PROPERTY DeltaProp
VIEW ledger
CHECK_DEADLOCK FALSE
