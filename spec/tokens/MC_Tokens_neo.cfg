\* exhaustive, governance side: 3 accounts, 2 candidates, NEO supply 3, amounts 0..3; GAS only as claims (supply <= 1)
SPECIFICATION Spec
CONSTANTS
  User = {"u1", "u2", "u3"}
  Cand = {"c1", "c2"}
  NeoTotal = 3
  MaxGas = 1
  MaxAmt = 3
  Gas0 = 0
  Rich = "u1"
  Bugs = {}
  Generate = FALSE
INVARIANTS TypeOK Conserved VoteHasRecord
PROPERTY DeltaProp
VIEW ledger
CHECK_DEADLOCK FALSE
