\* exhaustive, GAS / Notary side: 3 accounts (+ Notary), amounts 0..3, GAS supply <= 4; one NEO, one candidate
SPECIFICATION Spec
CONSTANTS
  User = {"u1", "u2", "u3"}
  Cand = {"c1"}
  NeoTotal = 1
  MaxGas = 4
  MaxAmt = 3
  Gas0 = 3
  Rich = "u1"
  Bugs = {}
  Generate = FALSE
INVARIANTS TypeOK Conserved VoteHasRecord
PROPERTY DeltaProp
VIEW ledger
CHECK_DEADLOCK FALSE
