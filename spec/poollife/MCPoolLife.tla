----------------------------- MODULE MCPoolLife -----------------------------
(* Universes for the exhaustive runs of PoolLifeImpl and for behaviour generation.  Units are the real ones (datoshi,
   bytes, the real verification costs of standard witnesses), so that the driver can realise every record exactly:
   a signature witness costs 32784 per unit of the execution fee factor, the 3-of-4 committee witness 131130, the 1-of-1
   oracle nodes witness 32786; contract-based witnesses (K, native Oracle, native Notary) are given generous fees. *)
EXTENDS PoolLifeImpl

SigK == 32784
CmtK == 131130
OnK  == 32786
NoAm == [conflicts |-> 0, high |-> 0, notary |-> 0, nvb |-> 0, oracle |-> 0]

Tx(id, signers, vub, size, netfee, sysfee, wk) ==
    [id |-> id, signers |-> signers, vub |-> vub, nvb |-> 0, size |-> size, netfee |-> netfee, sysfee |-> sysfee, wk |-> wk,
     std |-> TRUE, high |-> FALSE, cmt |-> 0, conf |-> {}, orc |-> 0, on |-> 0, nn |-> 0, wc |-> "", wv |-> {}, amult |-> NoAm]
Tight(size, fpb, exec, wk) == size * fpb + wk * exec

Bk(op, a, v)   == [op |-> op, a |-> a, v |-> v, inc |-> <<>>]
Inc(ids)      == [op |-> "none", a |-> "", v |-> 0, inc |-> ids]
Afee0         == [conflicts |-> 0, high |-> 0, notary |-> 10000000, nvb |-> 0, oracle |-> 0]

Sx(fpb, exec, bal, pending) ==
    [h |-> 0, blocked |-> {}, fpb |-> fpb, exec |-> exec, afee |-> Afee0, chain |-> {}, named |-> {}, cmt |-> 1, votes |-> 1,
     pending |-> pending, on |-> 1, nn |-> 1, bal |-> bal, cver |-> [K |-> 1]]

\* ---- U1: policy and fees.  A pays T1 (tight fee) and T2 (cosigned by X), B pays T3 (expires at 2) and T4.
T1 == << Tx(1, <<"A">>, 4, 300, Tight(300, 1000, 30, SigK), 100000, SigK),
         Tx(2, <<"A", "X">>, 4, 400, Tight(400, 1000, 30, 2 * SigK) + 2000000, 100000, 2 * SigK),
         Tx(3, <<"B">>, 2, 300, Tight(300, 1000, 30, SigK) + 500, 100000, SigK),
         Tx(4, <<"B">>, 4, 300, Tight(300, 1000, 30, SigK) + 1500000, 200000, SigK) >>
S1 == Sx(1000, 30, [A |-> 6000000, B |-> 5000000, X |-> 2000000000], {})
B1 == << Bk("block", "X", 0), Bk("block", "A", 0), Bk("unblock", "A", 0), Bk("fpb", "", 2000), Bk("fpb", "", 500),
         Bk("exec", "", 40), Bk("none", "", 0), Bk("drain", "A", 2500000), Inc(<<4>>) >>

\* ---- U1b: the only fee change is one the pool's own fee-per-byte filter handles (the code as it is passes)
T1b == << Tx(1, <<"A">>, 4, 300, Tight(300, 1000, 30, SigK), 100000, SigK),
          Tx(2, <<"A">>, 4, 300, 3000000, 100000, SigK),
          Tx(3, <<"B">>, 3, 300, Tight(300, 1000, 30, SigK) + 500, 100000, SigK) >>
S1b == Sx(1000, 30, [A |-> 6000000, B |-> 5000000], {})
B1b == << Bk("fpb", "", 6000), Bk("none", "", 0), Bk("block", "B", 0), Bk("drain", "A", 2000000) >>

\* ---- U2: attributes.  T2 names T1; T3 is a committee transaction; T4 answers oracle request 1; T5 is notary-assisted.
T2 == << Tx(1, <<"A">>, 4, 300, Tight(300, 1000, 30, SigK) + 1000000, 100000, SigK),
         [Tx(2, <<"B">>, 4, 340, Tight(340, 1000, 30, SigK) + 20000, 100000, SigK) EXCEPT !.conf = {1}, !.amult = [NoAm EXCEPT !.conflicts = 1]],
         [Tx(3, <<"A", "CMT">>, 4, 700, Tight(700, 1000, 30, SigK + CmtK) + 100000, 100000, SigK + CmtK) EXCEPT
             !.high = TRUE, !.cmt = 1, !.amult = [NoAm EXCEPT !.high = 1]],
         [Tx(4, <<"ORC", "ON">>, 6, 300, 40000000, 10000000, OnK + 32768) EXCEPT !.std = FALSE, !.orc = 1, !.on = 1,
             !.amult = [NoAm EXCEPT !.oracle = 1]],
         [Tx(5, <<"B", "NOTARY">>, 6, 400, 40000000, 100000, SigK + 40000) EXCEPT !.std = FALSE, !.nn = 1,
             !.amult = [NoAm EXCEPT !.notary = 2]] >>
S2 == Sx(1000, 30, [A |-> 2000000000, B |-> 2000000000, ORC |-> 100000000, S |-> 2000000000], {1, 2})
B2 == << Bk("vote", "", 2), Bk("answer", "", 1), Bk("onodes", "", 2), Bk("nnodes", "", 2), Inc(<<1>>), Bk("conflict", "A", 1),
         Bk("conflict", "S", 1), Bk("afee", "conflicts", 50000), Bk("none", "", 0) >>

\* ---- U3: contract-based witnesses, balances, NotValidBefore, a transaction paid from a notary deposit
T3 == << [Tx(1, <<"A", "K">>, 6, 400, 5000000, 100000, SigK + 40000) EXCEPT !.std = FALSE, !.wc = "K", !.wv = {1}],
         [Tx(2, <<"K">>, 4, 300, 5000000, 100000, 40000) EXCEPT !.std = FALSE, !.wc = "K", !.wv = {1}],
         Tx(3, <<"A">>, 4, 300, Tight(300, 1000, 30, SigK) + 100000, 3000000, SigK),
         [Tx(4, <<"A">>, 4, 310, Tight(310, 1000, 30, SigK) + 50000, 100000, SigK) EXCEPT !.nvb = 2, !.amult = [NoAm EXCEPT !.nvb = 1]],
         [Tx(5, <<"DEPA", "A">>, 6, 400, 40000000, 100000, SigK + 40000) EXCEPT !.std = FALSE, !.nn = 1,
             !.amult = [NoAm EXCEPT !.notary = 2]] >>
S3 == Sx(1000, 30, [A |-> 12000000, K |-> 2000000000, DEPA |-> 60000000], {})
B3 == << Bk("cver", "K", 2), Bk("cver", "K", 1), Bk("cver", "K", 3), Bk("cver", "K", 0), Bk("drain", "A", 6000000), Inc(<<3>>),
         Bk("none", "", 0), Bk("withdraw", "DEPA", 0), Bk("afee", "nvb", 100000) >>
=============================================================================
