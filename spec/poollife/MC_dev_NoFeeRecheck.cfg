SPECIFICATION Spec
CONSTANTS
  T <- T1
  St0 <- S1
  Blocks <- B1
  MaxH = 3
  MaxTx = 2
  Epoch = 4
  Off = 1
  GasFor = 50000000
  DefFpb = 1000
  NoPolicyRecheck = FALSE
  StaleHeight = FALSE
  NoAttrRecheck = FALSE
  NoWitnessRecheck = FALSE
  NoFpbFilter = FALSE
  Probe = FALSE
  FeeRecheck = "asis"
INVARIANTS ProposableInv AdmitAgrees
PROPERTIES PoolSoundStep
CHECK_DEADLOCK FALSE
