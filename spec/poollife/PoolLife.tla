------------------------------ MODULE PoolLife ------------------------------
(***************************************************************************)
(* Abstract (property level) specification of the LIFE of the node's       *)
(* memory pool across blocks.  Extension of the check of property C07:     *)
(*                                                                         *)
(*  "A transaction enters the memory pool only if it is well-formed,       *)
(*   inside its validity window, neither on chain nor named as a conflict  *)
(*   by an on-chain transaction of one of its signers, satisfies policy    *)
(*   and attribute rules, and pays at least size x fee-per-byte plus       *)
(*   attribute fees plus the cost of verifying its witnesses, all of which *)
(*   verify [PoolSound] ...  Any transactions taken from the memory pool   *)
(*   in pool order and packed into a block under the block limits form a   *)
(*   block that, after being serialised and parsed again the way peers     *)
(*   receive it, is accepted by the ledger [Proposable]."                  *)
(*                                                                         *)
(* The registered C07 check fills and empties pools at ONE chain state.    *)
(* Here transactions are pooled at various heights and blocks accepted in  *)
(* between change what admission depends on; after every accepted block    *)
(* the node refreshes its pool.  The statement does not say HOW the pool   *)
(* is refreshed - only that whatever is proposed from it at any height is  *)
(* accepted.  So the abstract level is: a chain state (a small record of   *)
(* exactly the facts admissibility depends on), transactions (small        *)
(* records), Admissible(t, st), what a block does to the state (Apply),    *)
(* what an independent replica accepts (BlockOK) and the two judged        *)
(* predicates Proposable and PoolSound.  The refresh itself is left open   *)
(* (any sub-sequence of the pool satisfies the abstract level as long as   *)
(* Proposable holds).                                                      *)
(*                                                                         *)
(* Chain state st:                                                         *)
(*   h        height (relative to the base height of a history)            *)
(*   blocked  accounts blocked by Policy                                   *)
(*   fpb      fee per byte             exec  execution fee factor          *)
(*   afee     attribute kind -> fee of one attribute unit                  *)
(*   chain    ids of the universe's transactions that are on chain         *)
(*   named    conflict records: [id, by] - an on-chain transaction signed  *)
(*            by account `by` names transaction id in a Conflicts attribute*)
(*   cmt      id of the sitting committee;  votes: the committee the votes *)
(*            elect (it takes office at the next epoch boundary)           *)
(*   pending  oracle request ids not answered yet                          *)
(*   on, nn   ids of the designated oracle / notary node sets              *)
(*   bal      payer -> GAS balance (payer "DEPx": the notary deposit of x,  *)
(*            which pays when the Notary contract is the sender)           *)
(*   cver     verification contract -> version (0: destroyed)              *)
(* Transaction t:                                                          *)
(*   id, signers (sequence of account names, the first one pays), vub,     *)
(*   nvb (0: none), size, netfee, sysfee, wk (verification cost of its     *)
(*   witnesses per unit of the execution fee factor), std (all witnesses   *)
(*   are standard contracts - used by the implementation level only),      *)
(*   high + cmt (HighPriority and the committee that signs), conf (ids     *)
(*   named by Conflicts attributes), orc + on (oracle response: request id *)
(*   and signing node set), nn (NotaryAssisted: signing notary node set),  *)
(*   wc + wv (verification contract among the signers and the versions     *)
(*   under which it accepts), amult (attribute kind -> fee units owed).    *)
(***************************************************************************)
EXTENDS Integers, Sequences, FiniteSets, SequencesExt, FiniteSetsExt

AttrKinds == {"conflicts", "high", "notary", "nvb", "oracle"}

\* balances at or above Cap are "rich": reported as Cap and never run out (TLC integers are 32 bits wide)
Cap == 2000000000

SignersOf(t) == ToSet(t.signers)
Payer(t)     == t.signers[1]
Fees(t)      == t.netfee + t.sysfee
AttrFee(t, st) == FoldSet(LAMBDA k, acc : acc + st.afee[k] * t.amult[k], 0, AttrKinds)
FeeNeed(t, st) == t.size * st.fpb + AttrFee(t, st) + t.wk * st.exec

----------------------------------------------------------------------------
\* The facts that make a transaction inadmissible, by name (the set is empty for an admissible one)
Grounds(t, st) ==
    (IF t.vub <= st.h THEN {"expired"} ELSE {})
    \cup (IF t.nvb > st.h THEN {"not-yet-valid"} ELSE {})
    \cup (IF t.id \in st.chain THEN {"on-chain"} ELSE {})
    \cup (IF \E n \in st.named : n.id = t.id /\ n.by \in SignersOf(t) THEN {"conflict-on-chain"} ELSE {})
    \cup (IF t.conf \cap st.chain # {} THEN {"conflict-on-chain"} ELSE {})
    \cup (IF SignersOf(t) \cap st.blocked # {} THEN {"blocked-signer"} ELSE {})
    \cup (IF t.high /\ t.cmt # st.cmt THEN {"committee-changed"} ELSE {})
    \cup (IF t.orc # 0 /\ t.orc \notin st.pending THEN {"oracle-answered"} ELSE {})
    \cup (IF t.orc # 0 /\ t.on # st.on THEN {"oracle-nodes-changed"} ELSE {})
    \cup (IF t.nn # 0 /\ t.nn # st.nn THEN {"notary-nodes-changed"} ELSE {})
    \cup (IF t.wc # "" /\ st.cver[t.wc] \notin t.wv THEN {"witness-contract"} ELSE {})
    \cup (IF t.netfee < FeeNeed(t, st) THEN {"fee"} ELSE {})
    \cup (IF st.bal[Payer(t)] < Fees(t) THEN {"balance"} ELSE {})

Admissible(t, st) == Grounds(t, st) = {}

\* What an independent replica (empty pool, every transaction verified) accepts as the next block: sel is a sequence
\* of transaction records.  Every member admissible on its own, no member names another one in a Conflicts attribute,
\* no two answers to one oracle request, every payer can pay for all of its members.
BlockOK(sel, st) ==
    /\ \A i \in DOMAIN sel : Admissible(sel[i], st)
    /\ \A i, j \in DOMAIN sel : i # j => /\ sel[j].id \notin sel[i].conf
                                         /\ sel[i].id # sel[j].id
                                         /\ (sel[i].orc = 0 \/ sel[i].orc # sel[j].orc)
    /\ \A i \in DOMAIN sel :
          LET p == Payer(sel[i]) IN
          FoldSet(LAMBDA j, acc : acc + Fees(sel[j]), 0, {j \in DOMAIN sel : Payer(sel[j]) = p}) <= st.bal[p]

\* JUDGED.  Whatever is taken from the pool in pool order under whatever block limits is accepted.  BlockOK is closed
\* under taking sub-sequences, so it is enough to state it for the whole pool.
Proposable(poolrecs, st) == BlockOK(poolrecs, st)

\* JUDGED.  A transaction that enters the pool is admissible at the state it is pooled at.
PoolSound(t, st) == Admissible(t, st)

----------------------------------------------------------------------------
\* What a block does to the state.  b = [op, a, v, txs]: at most one scenario operation (a committee / user
\* transaction made by somebody else) and the universe transactions it includes (sequence of records).
Dec(x, f) == IF x >= Cap THEN Cap ELSE x - f

\* the committee the votes elected takes office with the first block of an epoch (block index divisible by Epoch;
\* Off = base height modulo Epoch); a vote cast in that very block comes too late for it
NextCmt(st, Epoch, Off) == IF (st.h + 1 + Off) % Epoch = 0 THEN st.votes ELSE st.cmt

ApplyOp(b, st, GasFor) ==
    CASE b.op = "block"    -> [st EXCEPT !.blocked = @ \cup {b.a}]
      [] b.op = "unblock"  -> [st EXCEPT !.blocked = @ \ {b.a}]
      [] b.op = "fpb"      -> [st EXCEPT !.fpb = b.v]
      [] b.op = "exec"     -> [st EXCEPT !.exec = b.v]
      [] b.op = "afee"     -> [st EXCEPT !.afee = [@ EXCEPT ![b.a] = b.v]]
      [] b.op = "vote"     -> [st EXCEPT !.votes = b.v]
      [] b.op = "answer"   -> [st EXCEPT !.pending = @ \ {b.v}, !.bal = [@ EXCEPT !["ORC"] = Dec(@, GasFor)]]
      [] b.op = "onodes"   -> [st EXCEPT !.on = b.v]
      [] b.op = "nnodes"   -> [st EXCEPT !.nn = b.v]
      \* ContractManagement.destroy also puts the contract's hash on Policy's list of blocked accounts
      [] b.op = "cver"     -> [st EXCEPT !.cver = [@ EXCEPT ![b.a] = b.v], !.blocked = IF b.v = 0 THEN @ \cup {b.a} ELSE @]
      [] b.op = "drain"    -> [st EXCEPT !.bal = [@ EXCEPT ![b.a] = Dec(@, b.v)]]
      \* a notary deposit (payer "DEPx": the Notary contract sends, depositor x pays from its deposit) is withdrawn
      [] b.op = "withdraw" -> [st EXCEPT !.bal = [@ EXCEPT ![b.a] = 0]]
      [] b.op = "conflict" -> [st EXCEPT !.named = @ \cup {[id |-> b.v, by |-> b.a]}]
      [] OTHER             -> st

ApplyTx(t, st) ==
    [st EXCEPT !.chain   = @ \cup {t.id},
               !.named   = @ \cup {[id |-> c, by |-> s] : c \in t.conf, s \in SignersOf(t)},
               !.pending = @ \ {t.orc},
               !.bal     = [@ EXCEPT ![Payer(t)] = Dec(@, Fees(t))]]

RECURSIVE ApplyTxs(_, _)
ApplyTxs(txs, st) == IF txs = <<>> THEN st ELSE ApplyTxs(Tail(txs), ApplyTx(Head(txs), st))

Apply(b, st, Epoch, Off, GasFor) ==
    LET s1 == ApplyTxs(b.txs, ApplyOp(b, st, GasFor))
    IN  [s1 EXCEPT !.h = st.h + 1, !.cmt = NextCmt(st, Epoch, Off)]

\* a refresh only removes (informational: the statement does not say so)
RefreshOnlyRemoves(pool, pool2) == ToSet(pool2) \subseteq ToSet(pool)
=============================================================================
