---------------------------- MODULE PoolLifeImpl ----------------------------
(***************************************************************************)
(* Implementation-shaped model of the memory pool of a node across blocks: *)
(*                                                                         *)
(*   Pool(t)     Blockchain.PoolTx -> verifyAndPoolTx (expiry, policy,     *)
(*               size x fee-per-byte + attribute fees, on chain / named by *)
(*               a signer's on-chain transaction, witnesses within what is *)
(*               left of the network fee, attributes) ; mempool.Pool.Add   *)
(*               (duplicate, Conflicts attributes against the pool, oracle *)
(*               response replacement, balance against the payer's pooled  *)
(*               fees, sorted insertion).                                  *)
(*   Block(k)    a block made by somebody else is stored (storeBlock):     *)
(*               state changes, height is published, then                  *)
(*               memPool.RemoveStale(IsTxStillRelevant, bc): one pass in   *)
(*               pool order - IsTxStillRelevant's list of re-checks        *)
(*               (ValidUntilBlock against the new height; in the block /   *)
(*               named by / naming a transaction of the block; policy;     *)
(*               attributes; witnesses ONLY when some verification script  *)
(*               is not a standard contract, with gas limit = network fee  *)
(*               - size x fee-per-byte - attribute fees where a negative   *)
(*               limit means NO limit), the pool's fee-per-byte filter     *)
(*               (NetworkFee/Size against the highest fee-per-byte the     *)
(*               pool has ever seen, applied only when that maximum has    *)
(*               just been raised), balance re-accounting with fresh       *)
(*               balances.                                                 *)
(*   Propose     consensus takes GetVerifiedTransactions in pool order,    *)
(*               ApplyPolicyToTxSet (MaxTx), makes a block; an independent *)
(*               replica accepts it or not; an accepted block is stored    *)
(*               like any other.                                           *)
(*                                                                         *)
(* TLC checks Impl => Abstract: Proposable in every state, PoolSound on    *)
(* every admission.  Named deviations (CONSTANT switches; each must be     *)
(* refuted by TLC against Proposable):                                     *)
(*   NoPolicyRecheck   blocked signers are not re-checked (the code before *)
(*                     the repair a772241)                                 *)
(*   StaleHeight       the refresh runs before the new height is published *)
(*   NoAttrRecheck     verifyTxAttributes is skipped by the refresh        *)
(*   NoWitnessRecheck  non-standard witnesses are not re-verified          *)
(*   NoFpbFilter       RemoveStale has no fee-per-byte filter              *)
(* FeeRecheck = "exact" models the code since the repair c8f704d: the       *)
(* refresh compares the network fee with size x fee-per-byte + attribute   *)
(* fees + verification cost again (standard witnesses priced with          *)
(* fee.Calculate, non-standard ones re-verified within what is left).      *)
(* FeeRecheck = "asis" is the code BEFORE that repair (named deviation     *)
(* NoFeeRecheck): nothing is done about fees except the pool's filter; TLC *)
(* refutes Proposable as soon as a block raises the fee per byte, the      *)
(* execution fee factor or an attribute fee (found on the real code with   *)
(* the grounds fee-per-byte / fee-per-byte-ratchet / exec-fee /            *)
(* attribute-fee, then repaired).  NoFpbFilter is checked together with    *)
(* "asis" (the filter was the only fee check then; since c8f704d it is     *)
(* redundant).                                                             *)
(***************************************************************************)
EXTENDS Integers, Sequences, FiniteSets, SequencesExt, FiniteSetsExt, TLC

CONSTANTS T,          \* sequence of transaction records, T[i].id = i
          St0,        \* initial chain state
          Blocks,     \* sequence of block templates [op, a, v, inc]: inc = ids of universe transactions included
          MaxH,       \* blocks are produced while st.h < MaxH
          MaxTx,      \* MaxTransactionsPerBlock
          Epoch, Off, \* committee epoch length, base height modulo Epoch
          GasFor,     \* what an oracle response spends of the Oracle contract's GAS
          DefFpb,     \* fee per byte of the genesis state (the pool has seen it)
          NoPolicyRecheck, StaleHeight, NoAttrRecheck, NoWitnessRecheck, NoFpbFilter, FeeRecheck,
          Probe       \* behaviour generation only: after every block the harness judges the proposal and evicts what an
                      \* independent node refuses (so that one stale transaction does not hide the ones behind it)

VARIABLES st, pool, mpf, used, last
vars == <<st, pool, mpf, used, last>>

Abs == INSTANCE PoolLife

Ids      == 1..Len(T)
Recs(p)  == [i \in DOMAIN p |-> T[p[i]]]
InPool(p, x) == x \in ToSet(p)
Payers   == DOMAIN St0.bal

FpbOf(t) == t.netfee \div t.size
PrioLess(a, b) ==
    \/ (~a.high /\ b.high)
    \/ (a.high = b.high /\ FpbOf(a) < FpbOf(b))
    \/ (a.high = b.high /\ FpbOf(a) = FpbOf(b) /\ a.netfee < b.netfee)
Cmp(a, b) == IF PrioLess(T[a], T[b]) THEN -1 ELSE IF PrioLess(T[b], T[a]) THEN 1 ELSE 0
InsPos(p, t) ==
    IF Len(p) = 0 THEN 0
    ELSE IF Cmp(t, p[Len(p)]) = 0 THEN Len(p)
    ELSE LET less == {i \in 1..Len(p) : Cmp(t, p[i]) > 0}
         IN  IF less = {} THEN Len(p) ELSE Min(less) - 1
InsAt(p, n, t) == SubSeq(p, 1, n) \o <<t>> \o SubSeq(p, n + 1, Len(p))
Without(p, S)  == SelectSeq(p, LAMBDA x : x \notin S)
FeeSum(p, who) == FoldSet(LAMBDA x, acc : acc + Abs!Fees(T[x]), 0, {x \in ToSet(p) : Abs!Payer(T[x]) = who})

\* ------------------------------------------------------------------ admission
WitLimit(t, s) == t.netfee - t.size * s.fpb - Abs!AttrFee(t, s)
AttrOK(t, s) ==
    /\ (t.high => t.cmt = s.cmt)
    /\ (t.orc # 0 => (t.orc \in s.pending /\ t.on = s.on))
    /\ t.nvb <= s.h
    /\ t.conf \cap s.chain = {}
WitContractOK(t, s) == (t.wc = "" \/ s.cver[t.wc] \in t.wv) /\ (t.nn = 0 \/ t.nn = s.nn)

AdmitErr(t) ==
    IF t.vub <= st.h THEN "expired"
    ELSE IF Abs!SignersOf(t) \cap st.blocked # {} THEN "policy"
    ELSE IF WitLimit(t, st) < 0 THEN "smallfee"
    ELSE IF t.id \in st.chain THEN "exists"
    ELSE IF \E n \in st.named : n.id = t.id /\ n.by \in Abs!SignersOf(t) THEN "conflicts"
    ELSE IF t.wk * st.exec > WitLimit(t, st) \/ ~WitContractOK(t, st) THEN "witness"
    ELSE IF ~AttrOK(t, st) THEN "attr"
    ELSE ""

Fail(x, e) == /\ last' = [op |-> "pool", tx |-> x, ok |-> FALSE, err |-> e]
              /\ UNCHANGED <<st, pool, mpf, used>>

Pool(x) ==
    LET t   == T[x]
        who == Abs!Payer(t)
        e   == AdmitErr(t) IN
    IF e # "" THEN Fail(x, e)
    ELSE IF InPool(pool, x) THEN Fail(x, "dup")
    ELSE
    LET naming  == {y \in ToSet(pool) : x \in T[y].conf}                      \* pooled transactions that name t
        named   == t.conf \cap ToSet(pool)                                    \* pooled transactions t names
        unsigned == {y \in named : Abs!SignersOf(T[y]) \cap Abs!SignersOf(t) = {}}
        cfee    == FoldSet(LAMBDA y, acc : acc + T[y].netfee, 0, {y \in naming : who \in Abs!SignersOf(T[y])})
                   + FoldSet(LAMBDA y, acc : acc + T[y].netfee, 0, named)
        gone    == naming \cup named
        freed   == FoldSet(LAMBDA y, acc : acc + Abs!Fees(T[y]), 0, {y \in gone : Abs!Payer(T[y]) = who})
        same    == {y \in ToSet(pool) : t.orc # 0 /\ T[y].orc = t.orc} IN
    IF unsigned # {} THEN Fail(x, "conflictsattr")
    ELSE IF cfee # 0 /\ t.netfee <= cfee THEN Fail(x, "conflictsattr")
    ELSE IF st.bal[who] < Abs!Fees(t) THEN Fail(x, "funds")
    ELSE IF st.bal[who] < Abs!Fees(t) + FeeSum(pool, who) - freed THEN Fail(x, "poolconflict")
    ELSE IF \E y \in same : T[y].netfee >= t.netfee THEN Fail(x, "oracle")
    ELSE
    LET p1 == Without(pool, gone \cup same) IN
        /\ pool' = InsAt(p1, InsPos(p1, x), x)
        /\ last' = [op |-> "pool", tx |-> x, ok |-> TRUE, err |-> ""]
        /\ UNCHANGED <<st, mpf, used>>

\* ------------------------------------------------------------------ refresh after a block
IdsOf(recs) == {recs[i].id : i \in DOMAIN recs}

\* IsTxStillRelevant(t, the block's transactions, false) evaluated at s2 (hh = the height the code sees)
Relevant(t, b, s2, hh) ==
    /\ t.vub > hh
    /\ t.id \notin IdsOf(b.txs)
    /\ ~\E i \in DOMAIN b.txs : t.id \in b.txs[i].conf
    /\ ~(b.op = "conflict" /\ b.v = t.id)            \* the outside transaction naming t sits in the block's pool
    /\ t.conf \cap IdsOf(b.txs) = {}
    /\ (NoPolicyRecheck \/ Abs!SignersOf(t) \cap s2.blocked = {})
    /\ (NoAttrRecheck \/ AttrOK(t, s2))
    /\ (NoWitnessRecheck \/ t.std
        \/ (/\ (WitLimit(t, s2) < 0 \/ t.wk * s2.exec <= WitLimit(t, s2))     \* negative gas limit = no limit
            /\ WitContractOK(t, s2)))
    /\ (FeeRecheck # "exact" \/ t.netfee >= Abs!FeeNeed(t, s2))

RECURSIVE Sweep(_, _, _, _, _, _, _)
Sweep(rest, b, s2, hh, changed, f2, acc) ==
    IF rest = <<>> THEN acc.pool
    ELSE LET x   == Head(rest)
             t   == T[x]
             who == Abs!Payer(t)
             ok  == /\ Relevant(t, b, s2, hh)
                    /\ (NoFpbFilter \/ ~changed \/ FpbOf(t) >= f2)
                    /\ s2.bal[who] >= Abs!Fees(t)
                    /\ s2.bal[who] >= Abs!Fees(t) + acc.sum[who]
         IN  Sweep(Tail(rest), b, s2, hh, changed, f2,
                   IF ok THEN [pool |-> Append(acc.pool, x), sum |-> [acc.sum EXCEPT ![who] = @ + Abs!Fees(t)]] ELSE acc)

Refreshed(p, b, s2) ==
    Sweep(p, b, s2, IF StaleHeight THEN st.h ELSE s2.h, s2.fpb > mpf, Max({mpf, s2.fpb}),
          [pool |-> <<>>, sum |-> [w \in Payers |-> 0]])

\* what the harness does after a refused proposal: drop the selected transactions an independent node refuses on their
\* own (all selected ones if it refuses none of them alone), judge again
RECURSIVE ProbeLoop(_, _, _)
ProbeLoop(p, s, n) ==
    LET sel == SubSeq(p, 1, Min({MaxTx, Len(p)})) IN
    IF n = 0 \/ sel = <<>> \/ Abs!BlockOK(Recs(sel), s) THEN p
    ELSE LET bad == {x \in ToSet(sel) : ~Abs!Admissible(T[x], s)}
         IN  ProbeLoop(Without(p, IF bad = {} THEN ToSet(sel) ELSE bad), s, n - 1)
Probed(p, s) == IF Probe THEN ProbeLoop(p, s, 6) ELSE p

StoreBlock(p, b) ==
    LET s2 == Abs!Apply(b, st, Epoch, Off, GasFor) IN
    /\ st' = s2
    /\ pool' = Probed(Refreshed(p, b, s2), s2)
    /\ mpf' = Max({mpf, s2.fpb})

\* ------------------------------------------------------------------ blocks made by others
OpOK(b) ==
    CASE b.op = "block"    -> b.a \notin st.blocked
      [] b.op = "unblock"  -> b.a \in st.blocked
      [] b.op = "fpb"      -> b.v # st.fpb
      [] b.op = "exec"     -> b.v # st.exec
      [] b.op = "afee"     -> b.v # st.afee[b.a]
      [] b.op = "vote"     -> b.v # st.votes
      [] b.op = "answer"   -> b.v \in st.pending /\ st.bal["ORC"] >= GasFor
      [] b.op = "onodes"   -> b.v # st.on
      [] b.op = "nnodes"   -> b.v # st.nn
      [] b.op = "cver"     -> /\ b.v # st.cver[b.a] /\ st.cver[b.a] # 0                  \* destroyed for good
                              /\ (st.cver[b.a] = 3 => b.v = 0)                          \* updated code stays
      \* the drained account / the account naming a transaction signs the scenario transaction itself
      [] b.op = "drain"    -> st.bal[b.a] >= b.v /\ st.bal[b.a] < Abs!Cap /\ b.a \notin st.blocked
      [] b.op = "conflict" -> b.v \notin st.chain /\ b.a \notin st.blocked
      \* deposits of the universes are locked until the first block of a history
      [] b.op = "withdraw" -> st.bal[b.a] > 0 /\ st.h >= 1
      [] OTHER             -> TRUE

Block(k) ==
    LET tpl == Blocks[k]
        b   == [op |-> tpl.op, a |-> tpl.a, v |-> tpl.v, txs |-> Recs(tpl.inc)] IN
    /\ k \notin used
    /\ st.h < MaxH
    /\ OpOK(b)
    /\ Abs!BlockOK(b.txs, st)
    /\ StoreBlock(pool, b)
    /\ used' = used \cup {k}
    /\ last' = [op |-> "block", k |-> k, b |-> tpl]

\* ------------------------------------------------------------------ proposal from the own pool
Propose ==
    LET p1  == Probed(pool, st)
        sel == SubSeq(p1, 1, Min({MaxTx, Len(p1)}))
        b   == [op |-> "none", a |-> "", v |-> 0, txs |-> Recs(sel)] IN
    /\ sel # <<>>
    /\ st.h < MaxH
    /\ StoreBlock(p1, b)
    /\ UNCHANGED used
    /\ last' = [op |-> "propose", sel |-> sel, ok |-> Abs!BlockOK(Recs(sel), st)]

Init ==
    /\ st = St0
    /\ pool = <<>>
    /\ mpf = Max({DefFpb, St0.fpb})
    /\ used = {}
    /\ last = [op |-> "init"]

Next ==
    \/ \E x \in Ids : Pool(x)
    \/ \E k \in DOMAIN Blocks : Block(k)
    \/ Propose

Spec == Init /\ [][Next]_vars

----------------------------------------------------------------------------
\* Impl => Abstract
ProposableInv == Abs!Proposable(Recs(pool), st)

PoolSoundStep ==
    [][ /\ (last'.op = "pool" /\ last'.ok) => Abs!PoolSound(T[last'.tx], st)
        /\ (last'.op = "pool" /\ ~last'.ok) => pool' = pool
        /\ (last'.op = "block") => Abs!RefreshOnlyRemoves(pool, pool') ]_vars

\* the model's own admission agrees with the abstract predicate (keeps the generator honest): what verifyAndPoolTx
\* refuses is inadmissible, what it lets through is admissible up to the balance (checked by the pool)
AdmitAgrees ==
    \A x \in Ids : (AdmitErr(T[x]) = "") <=> (Abs!Grounds(T[x], st) \subseteq {"balance"})
=============================================================================
