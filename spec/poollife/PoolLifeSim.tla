----------------------------- MODULE PoolLifeSim -----------------------------
(* Behaviour generator: PoolLifeImpl (the code as it is: FeeRecheck = "exact") plus a history variable, printed as JSON
   when the depth bound is reached (tlc -simulate).  The history starts with the universe, so that the harness can realise
   it on real chains; every step carries what the model predicts (pool content, state) - compared for drift only. *)
EXTENDS MCPoolLife, Json

CONSTANT Depth
VARIABLE hist

SimInit == Init /\ hist = << [op |-> "init", txs |-> T, st |-> St0, maxtx |-> MaxTx] >>

\* generation mix (TLC picks among the successor states uniformly): mostly admissions of transactions that are not pooled
GenNext == \/ \E x \in Ids : Pool(x)
           \/ \E x \in Ids : ~InPool(pool, x) /\ AdmitErr(T[x]) = "" /\ Pool(x)
           \/ \E x \in Ids : ~InPool(pool, x) /\ AdmitErr(T[x]) = "" /\ Pool(x)
           \/ \E k \in DOMAIN Blocks : Block(k)
           \/ \E k \in DOMAIN Blocks : Len(pool) >= 2 /\ Block(k)
           \/ Propose
SimNext == /\ GenNext
           /\ hist' = Append(hist,
                CASE last'.op = "pool"  -> [op |-> "pool", tx |-> last'.tx, ok |-> last'.ok, err |-> last'.err, pool |-> pool']
                  [] last'.op = "block" -> [op |-> "block", b |-> last'.b, pool |-> pool', st |-> st']
                  [] OTHER              -> [op |-> "propose", sel |-> last'.sel, ok |-> last'.ok, pool |-> pool', st |-> st'])
SimSpec == SimInit /\ [][SimNext]_<<vars, hist>>

Emit == Len(hist) # Depth \/ PrintT(<<"@@HIST@@", ToJson(hist)>>)
=============================================================================
