---------------------------- MODULE PoolLifeTrace ----------------------------
(* Validates traces recorded from a REAL proposer node (core.Blockchain with its memory pool) and an independent replica
   against the ABSTRACT specification PoolLife.  Events:
     init     the universe as realised (transaction records read back from the real transactions), the abstract chain
              state read from the real chain, epoch parameters
     pool     Blockchain.PoolTx of transaction `tx` on the proposer: ok / err, the pool afterwards (GetVerifiedTransactions)
     block    a block made by somebody else (b = operation + included universe transactions) was accepted by replica and
              proposer; pool = the proposer's pool after its refresh, st = the abstract state read from the chain
     propose  the block made of ApplyPolicyToTxSet(GetVerifiedTransactions) of the proposer, sealed, encoded, decoded, was
              offered to an independent node with an empty pool: accepted / err.  commit = FALSE: a throw-away judge node
              (nothing changes); commit = TRUE: the replica itself, and when it accepted the proposer stored the block too.
   Judged: Proposable (every proposal is accepted) and PoolSound (what entered the pool was admissible by the recorded
   facts).  Predicates named "i:..." are informational (agreement between the recorded facts and the observed verdicts,
   between the abstract Apply and the state read from the chain): reported as drift, never as violations. *)
EXTENDS TraceIO, FiniteSets, SequencesExt

VARIABLES l, T, st, pool, par
vars == <<l, T, st, pool, par>>

M == INSTANCE PoolLife

NormT(txs) == [i \in DOMAIN txs |-> [txs[i] EXCEPT !.conf = ToSet(@), !.wv = ToSet(@)]]
NormS(s)   == [s EXCEPT !.blocked = ToSet(@), !.chain = ToSet(@), !.pending = ToSet(@), !.named = ToSet(@)]
Recs(p)    == [i \in DOMAIN p |-> T[p[i]]]
Known(p)   == \A i \in DOMAIN p : p[i] \in DOMAIN T

Init == l = 1 /\ T = <<>> /\ st = [h |-> 0] /\ pool = <<>> /\ par = [epoch |-> 4, off |-> 0, gasfor |-> 0]

Predicted(b, txs) == M!Apply([op |-> b.op, a |-> b.a, v |-> b.v, txs |-> txs], st, par.epoch, par.off, par.gasfor)

Step ==
    /\ l <= Len(TLog)
    /\ l' = l + 1
    /\ LET e == TLog[l] IN
       CASE e.event = "init" ->
              /\ T' = NormT(e.txs) /\ st' = NormS(e.st) /\ pool' = <<>>
              /\ par' = [epoch |-> e.epoch, off |-> e.off, gasfor |-> e.gasfor]
         [] e.event = "pool" ->
              /\ pool' = e.pool /\ UNCHANGED <<T, st, par>>
              /\ Report(l, (IF e.ok THEN NameIf(M!PoolSound(T[e.tx], st), "PoolSound")
                                         \cup NameIf(e.tx \in ToSet(e.pool), "i:PooledListed")
                                    ELSE NameIf(e.pool = pool, "i:FailedPoolUnchanged")
                                         \cup NameIf(e.err \in {"dup", "funds", "poolconflict", "conflictsattr", "oracle", "oom"}
                                                     \/ ~M!Admissible(T[e.tx], st), "i:RefusedAlthoughAdmissible"))
                           \cup NameIf(Known(e.pool), "i:UnknownPooled"),
                        [ev |-> e, grounds |-> M!Grounds(T[e.tx], st)])
         [] e.event = "block" ->
              /\ pool' = e.pool /\ st' = NormS(e.st) /\ UNCHANGED <<T, par>>
              /\ Report(l, NameIf(M!RefreshOnlyRemoves(pool, e.pool), "i:RefreshOnlyRemoves")
                           \cup NameIf(NormS(e.st) = Predicted(e.b, Recs(e.b.inc)), "i:StateAsApply"),
                        [ev |-> e, predicted |-> Predicted(e.b, Recs(e.b.inc))])
         [] e.event = "propose" ->
              /\ pool' = e.pool /\ st' = NormS(e.st) /\ UNCHANGED <<T, par>>
              /\ Report(l, NameIf(e.accepted, "Proposable")
                           \cup NameIf(e.accepted <=> M!BlockOK(Recs(e.sel), st), "i:VerdictAsFacts")
                           \cup NameIf(e.commit \/ NormS(e.st) = st, "i:JudgeChangedState")
                           \cup NameIf(~(e.commit /\ e.accepted)
                                       \/ NormS(e.st) = Predicted([op |-> "none", a |-> "", v |-> 0], Recs(e.sel)), "i:StateAsApply"),
                        [ev |-> e, grounds |-> [i \in DOMAIN e.sel |-> M!Grounds(T[e.sel[i]], st)],
                         poolgrounds |-> [i \in DOMAIN pool |-> M!Grounds(T[pool[i]], st)]])

TraceSpec == Init /\ [][Step]_vars
=============================================================================
