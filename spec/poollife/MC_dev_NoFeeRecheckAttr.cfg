SPECIFICATION Spec
CONSTANTS
  T <- T2
  St0 <- S2
  Blocks <- B2
  MaxH = 3
  MaxTx = 3
  Epoch = 4
  Off = 1
  GasFor = 50000000
  DefFpb = 1000
  NoPolicyRecheck = FALSE
  StaleHeight = FALSE
  NoAttrRecheck = FALSE
  NoWitnessRecheck = FALSE
  NoFpbFilter = FALSE
  Probe = FALSE
  FeeRecheck = "asis"
INVARIANTS ProposableInv AdmitAgrees
PROPERTIES PoolSoundStep
CHECK_DEADLOCK FALSE
