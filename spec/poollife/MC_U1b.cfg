SPECIFICATION Spec
CONSTANTS
  T <- T1b
  St0 <- S1b
  Blocks <- B1b
  MaxH = 3
  MaxTx = 2
  Epoch = 4
  Off = 1
  GasFor = 50000000
  DefFpb = 1000
  NoPolicyRecheck = FALSE
  StaleHeight = FALSE
  NoAttrRecheck = FALSE
  NoWitnessRecheck = FALSE
  NoFpbFilter = FALSE
  Probe = FALSE
  FeeRecheck = "exact"
INVARIANTS ProposableInv AdmitAgrees
PROPERTIES PoolSoundStep
CHECK_DEADLOCK FALSE
