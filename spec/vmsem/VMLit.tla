------------------------------- MODULE VMLit -------------------------------
(* Literals shared by the case generators of C13: initial-stack literals (values without heap references,
   compound literals nested), their loading into a machine, and operand constructors. *)
EXTENDS VMSem, TLC

CONSTANT Seed      \* VERIF_SEED

-----------------------------------------------------------------------------
(* initial-stack literals: values without heap references; compound literals are nested *)
GenBytes(g) == [i \in 1..g[1] |-> (i * g[2] + g[3]) % 256]
LitBytes(l) == IF "gen" \in DOMAIN l THEN GenBytes(l.gen) ELSE l.s
RECURSIVE LoadVal(_, _)
RECURSIVE LoadSeq(_, _, _, _)
LoadSeq(heap, lits, i, acc) ==
    IF i > Len(lits) THEN [heap |-> heap, vs |-> acc]
    ELSE LET r == LoadVal(heap, lits[i]) IN LoadSeq(r.heap, lits, i + 1, Append(acc, r.v))
LoadVal(heap, l) ==
    CASE l.t \in {"Integer", "Boolean", "Null"} -> [heap |-> heap, v |-> l]
      [] l.t = "ByteString" -> [heap |-> heap, v |-> BytesV(LitBytes(l))]
      [] l.t = "Buffer" -> LET a == Alloc(heap, [k |-> "Buffer", s |-> LitBytes(l)]) IN [heap |-> a.heap, v |-> RefV("Buffer", a.r)]
      [] l.t \in {"Array", "Struct"} ->
            LET c == LoadSeq(heap, l.items, 1, <<>>)  a == Alloc(c.heap, [k |-> l.t, items |-> c.vs])
            IN [heap |-> a.heap, v |-> RefV(l.t, a.r)]
      [] l.t = "Map" ->
            LET c == LoadSeq(heap, l.vals, 1, <<>>)
                a == Alloc(c.heap, [k |-> "Map", keys |-> [i \in 1..Len(l.keys) |-> LoadVal(heap, l.keys[i]).v], vals |-> c.vs])
            IN [heap |-> a.heap, v |-> RefV("Map", a.r)]
ExpandIns(ins) == IF "gen" \in DOMAIN ins THEN [op |-> ins.op, b |-> GenBytes(ins.gen)] ELSE ins
LoadCase(c) == LET l == LoadSeq(<<>>, c.init, 1, <<>>)
               IN Machine([i \in 1..Len(c.prog) |-> ExpandIns(c.prog[i])], l.vs, l.heap)

-----------------------------------------------------------------------------
(* operands *)
I(k) == BI!FromInt(k)
P(n) == BI!Pow2(n)
LI(n) == [t |-> "Integer", n |-> n]
LB(s) == [t |-> "ByteString", s |-> s]
LBuf(s) == [t |-> "Buffer", s |-> s]
LBool(b) == [t |-> "Boolean", b |-> b]
LNull == [t |-> "Null"]
LArr(items) == [t |-> "Array", items |-> items]
LStruct(items) == [t |-> "Struct", items |-> items]
LMap(keys, vals) == [t |-> "Map", keys |-> keys, vals |-> vals]
LK(k) == LI(I(k))
\* n as w little-endian two's complement bytes (sign extended)
PadBytes(n, w) == LET b == BI!ToBytesLE(n) IN b \o Repeat(IF n.neg THEN 255 ELSE 0, w - Len(b))
FitW(n, w) == BI!ByteLen(n) <= w
Op(o) == [op |-> o]
=============================================================================
