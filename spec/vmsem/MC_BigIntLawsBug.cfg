\* same laws with the named deviation: TLC must report a violation
INIT Init
NEXT Next
CONSTANTS
  Seed = 1
  BugFloorDiv = TRUE
INVARIANT LawsHold
CHECK_DEADLOCK FALSE
