------------------------------- MODULE VMEnum -------------------------------
(* Enumeration specification (DESIGN 3.4 c): one state per case; while the successor is generated the case
   (program, initial stack) |-> (final stack | FAULT) is printed as JSON after the marker @@CASE@@.
   Initial states are chunks of the case list so that TLC's workers evaluate cases in parallel.
   WfOk is the model-level sanity invariant of the executable specification itself. *)
EXTENDS VMCases2, VMOut

CONSTANT Chunks
VARIABLES chunk, idx, wf

Fuel == 400
\* AllCases is bound once per chunk (LET values are evaluated once per evaluation of Next)
Init == chunk \in 1..Chunks /\ idx = 0 /\ wf = TRUE
Next == /\ idx = 0
        /\ LET cs == AllCases IN
           \E i \in {j \in 1..Len(cs) : j % Chunks = chunk % Chunks} :
               LET m == Run(LoadCase(cs[i]), Fuel) IN
               /\ idx' = i
               /\ wf' = WellFormed(m)
               /\ PrintT(<<"@@CASE@@", ToJson([id |-> i] @@ OutCase(cs[i], m))>>)
        /\ UNCHANGED chunk
WfOk == wf
=============================================================================
