------------------------------- MODULE VMEnum -------------------------------
(* Enumeration specification (DESIGN 3.4 c): one state per case; the invariant Emit prints
   (program, initial stack) |-> (final stack | FAULT) as JSON after the marker @@CASE@@.
   Initial states are chunks of the case list so that TLC's workers evaluate cases in parallel. *)
EXTENDS VMCases2, Json

CONSTANT Chunks
VARIABLES chunk, idx

\* ---- output projection: long byte strings are replaced by length, ends and a sampled checksum
RECURSIVE CkRec(_, _, _)
CkRec(s, k, acc) == IF k > 127 THEN acc
                    ELSE CkRec(s, k + 1, (acc + s[1 + (k * (Len(s) - 1)) \div 127] * (k + 1)) % 65521)
Proj(s) == [len |-> Len(s), head |-> SubSeq(s, 1, 16), tail |-> SubSeq(s, Len(s) - 15, Len(s)), ck |-> CkRec(s, 0, 0)]
OutV(v) == IF v.t = "ByteString" /\ Len(v.s) > 64 THEN [t |-> "ByteString", long |-> Proj(v.s)] ELSE v
OutSeq(s) == [i \in 1..Len(s) |-> OutV(s[i])]
OutObj(o) == CASE o.k = "Buffer" -> (IF Len(o.s) > 64 THEN [k |-> "Buffer", long |-> Proj(o.s)] ELSE o)
               [] o.k = "Map" -> [k |-> "Map", keys |-> OutSeq(o.keys), vals |-> OutSeq(o.vals)]
               [] OTHER -> [k |-> o.k, items |-> OutSeq(o.items)]

Fuel == 400
Eval(c) == LET m == Run(LoadCase(c), Fuel)
           IN [fam |-> c.fam, prog |-> c.prog, init |-> c.init, st |-> m.st, opq |-> m.opq, quirk |-> m.quirk,
               stack |-> IF m.st = "HALT" THEN OutSeq(m.stack) ELSE <<>>,
               heap |-> IF m.st = "HALT" THEN [i \in 1..Len(m.heap) |-> OutObj(m.heap[i])] ELSE <<>>]

\* AllCases is bound once per chunk (LET values are evaluated once per evaluation of Next); the case is printed while
\* the successor is generated, by the worker that owns the chunk.
Init == chunk \in 1..Chunks /\ idx = 0
Next == /\ idx = 0
        /\ LET cs == AllCases IN
           \E i \in {j \in 1..Len(cs) : j % Chunks = chunk % Chunks} :
               /\ idx' = i
               /\ PrintT(<<"@@CASE@@", ToJson([id |-> i] @@ Eval(cs[i]))>>)
        /\ UNCHANGED chunk
=============================================================================
