SPECIFICATION SimSpec
CONSTANTS
  Seed = 1
  Depth = 10
CONSTRAINT Alive
INVARIANT Emit
CHECK_DEADLOCK FALSE
