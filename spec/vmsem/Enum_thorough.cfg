\* thorough tier: products thinned by 2 at most, exhaustive sequences up to length 3; Seed is replaced per run
INIT Init
NEXT Next
CONSTANTS
  Seed = 1
  Thin = 2
  SeqLen = 3
  Chunks = 256
INVARIANT WfOk
CHECK_DEADLOCK FALSE
