\* thorough tier: big products thinned by 2 (Thin = 2; T(d) = 1 for the others), instruction sequences up to length 3
\* exhaustive (22 opcodes x 3 initial stacks); Seed is replaced per run
INIT Init
NEXT Next
CONSTANTS
  Seed = 1
  Thin = 2
  SeqLen = 3
  Chunks = 256
INVARIANT WfOk
CHECK_DEADLOCK FALSE
