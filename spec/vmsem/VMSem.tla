------------------------------- MODULE VMSem -------------------------------
(* Executable specification of the side-effect-free part of NeoVM (C13): Step(m) executes one
   instruction of machine m, Run(m, fuel) runs to HALT / FAULT.  Written from the NeoVM reference
   semantics (neo-vm C#, JumpTable.*.cs / ExecutionEngine.cs, latest hardfork set), over unbounded
   integers with explicit 256-bit range checks (PushInt).

   Programs are sequences of decoded instructions [op |-> name, ...operands]; jump / call / try /
   PUSHA operands are RELATIVE INSTRUCTION-INDEX offsets (the harness assembles bytes and byte offsets).

   m.st: "RUN", "HALT", "FAULT", or "SKIP" = the specification does not claim this execution
   (limits not modelled, or corners where the reference is not established: see Skip(...) call sites).
   m.quirk # "" names a corner that IS specified here (reference behaviour as I know it) but whose
   reference behaviour I could not establish from this tree: reported as drift, never as violation.

   Triage notes (disagreements found on the unchanged tree and how they were resolved) are at the end. *)
EXTENDS VMVal

GuardItems == 1000     \* executions that ever hold more items than this are not claimed (stack-size limit is C12's)

Frame0(pc) == [pc |-> pc, init |-> FALSE, loc |-> <<>>, arg |-> <<>>, try |-> <<>>]
Machine(prog, stack, heap) ==
    [prog |-> prog, st |-> "RUN", stack |-> stack, heap |-> heap,
     static |-> [ok |-> FALSE, v |-> <<>>], frames |-> <<Frame0(1)>>, exc |-> <<>>, opq |-> FALSE, quirk |-> ""]

Fault(m) == [m EXCEPT !.st = "FAULT"]
Skip(m)  == [m EXCEPT !.st = "SKIP"]
Quirk(m, name) == IF m.quirk = "" THEN [m EXCEPT !.quirk = name] ELSE m

SLen(m) == Len(m.stack)
Peek(m, k) == m.stack[Len(m.stack) - k]                    \* k = 0 is the top
PopN(m, n) == [m EXCEPT !.stack = SubSeq(m.stack, 1, Len(m.stack) - n)]
Push(m, v) == [m EXCEPT !.stack = Append(m.stack, v)]
PushInt(m, n) == IF BI!Fits256(n) THEN Push(m, IntV(n)) ELSE Fault(m)      \* the 256-bit range check
PushBool(m, b) == Push(m, BoolV(b))
NF(m) == Len(m.frames)
Top(m) == m.frames[Len(m.frames)]
SetTop(m, f) == [m EXCEPT !.frames[Len(m.frames)] = f]
NewObj(m, obj, t) == LET a == Alloc(m.heap, obj) IN Push([m EXCEPT !.heap = a.heap], RefV(t, a.r))
NewBuf(m, s) == NewObj(m, [k |-> "Buffer", s |-> s], "Buffer")

\* jump of the current frame to instruction pc + off; targets outside the script are not claimed
\* (jump-to-end and out-of-range targets: reference and implementation details not established)
Jump(m, pc, off) == LET t == pc + off
                    IN IF t < 1 \/ t > Len(m.prog) THEN Skip(m) ELSE SetTop(m, [Top(m) EXCEPT !.pc = t])

-----------------------------------------------------------------------------
(* exception handling: ExecutionEngine.HandleException *)
RECURSIVE Handle(_, _)
Handle(m, fi) ==
    IF fi = 0 THEN Fault(m)                                  \* unhandled: VMUnhandledException
    ELSE LET fr == m.frames[fi] IN
      IF fr.try = <<>> THEN Handle(m, fi - 1)
      ELSE LET n == Len(fr.try)  tc == fr.try[n] IN
        IF tc.state = "F" \/ (tc.state = "C" /\ tc.fin = 0)
        THEN Handle([m EXCEPT !.frames[fi].try = SubSeq(fr.try, 1, n - 1)], fi)
        ELSE LET m1 == [m EXCEPT !.frames = SubSeq(m.frames, 1, fi)]    \* unload the frames above
             IN IF tc.state = "T" /\ tc.catch # 0
                THEN [m1 EXCEPT !.frames[fi].try[n].state = "C", !.frames[fi].pc = tc.catch,
                                !.stack = Append(m.stack, m.exc[1]), !.exc = <<>>,
                                !.opq = m.opq \/ ("opq" \in DOMAIN m.exc[1])]
                ELSE [m1 EXCEPT !.frames[fi].try[n].state = "F", !.frames[fi].pc = tc.fin]
Throw(m, v) == LET m1 == [m EXCEPT !.exc = <<v>>] IN Handle(m1, NF(m1))
\* a catchable exception raised by the engine itself: the item is a ByteString with unspecified text
ThrowVM(m) == Throw(m, OpaqueV)

-----------------------------------------------------------------------------
(* operand helpers *)
Un(m, F(_, _)) ==          \* unary integer operator F(m', n)
    IF SLen(m) < 1 THEN Fault(m) ELSE LET a == IntOf(Peek(m, 0)) IN IF ~a.ok THEN Fault(m) ELSE F(PopN(m, 1), a.v)
Bin(m, F(_, _, _)) ==      \* binary integer operator F(m', x1, x2), x2 on top
    IF SLen(m) < 2 THEN Fault(m)
    ELSE LET b == IntOf(Peek(m, 0))  a == IntOf(Peek(m, 1))
         IN IF ~a.ok \/ ~b.ok THEN Fault(m) ELSE F(PopN(m, 2), a.v, b.v)
BinBool(m, F(_, _)) ==
    IF SLen(m) < 2 THEN Fault(m)
    ELSE LET b == BoolOf(Peek(m, 0))  a == BoolOf(Peek(m, 1))
         IN IF ~a.ok \/ ~b.ok THEN Fault(m) ELSE PushBool(PopN(m, 2), F(a.v, b.v))
\* pops a count/index operand ((int) cast): F(m', k)
Idx(m, F(_, _)) ==
    IF SLen(m) < 1 THEN Fault(m) ELSE LET a == Int32Of(Peek(m, 0)) IN IF ~a.ok THEN Fault(m) ELSE F(PopN(m, 1), a.v)

-----------------------------------------------------------------------------
(* numeric *)
OAdd(m, a, b) == PushInt(m, BI!Add(a, b))
OSub(m, a, b) == PushInt(m, BI!Sub(a, b))
OMul(m, a, b) == PushInt(m, BI!Mul(a, b))
\* BigInteger division truncates towards zero, remainder takes the sign of the dividend; /0 throws
ODiv(m, a, b) == IF BI!IsZero(b) THEN Fault(m) ELSE PushInt(m, BI!Quo(a, b))
OMod(m, a, b) == IF BI!IsZero(b) THEN Fault(m) ELSE PushInt(m, BI!Rem(a, b))
\* POW: exponent (int) cast and 0 <= e <= MaxShift.  |a| >= 2 implies |a|^e >= 2^((bitlen-1)*e): when that
\* bound reaches 2^256 the result cannot fit and the exact power is not computed.
OPow(m, a, e) == IF ~BI!FitsInt32(e) \/ e.neg \/ BI!ToInt(e) > MaxShift THEN Fault(m)
                 ELSE LET k == BI!ToInt(e) IN
                      IF BI!BitLen(a) >= 2 /\ (BI!BitLen(a) - 1) * k >= 256 THEN Fault(m)
                      ELSE PushInt(m, BI!Pow(a, k))
OSqrt(m, a) == IF a.neg THEN Fault(m) ELSE PushInt(m, BI!Sqrt(a))
OSign(m, a) == PushInt(m, BI!FromInt(BI!Sign(a)))
OAbs(m, a) == PushInt(m, BI!Abs(a))
ONeg(m, a) == PushInt(m, BI!Neg(a))
OInc(m, a) == PushInt(m, BI!Add(a, BI!One))
ODec(m, a) == PushInt(m, BI!Sub(a, BI!One))
ONot(m, a) == PushInt(m, BI!BNot(a))
OAnd(m, a, b) == PushInt(m, BI!BAnd(a, b))
OOr(m, a, b)  == PushInt(m, BI!BOr(a, b))
OXor(m, a, b) == PushInt(m, BI!BXor(a, b))
ONz(m, a) == PushBool(m, ~BI!IsZero(a))
ONumEq(m, a, b) == PushBool(m, BI!Eq(a, b))
ONumNe(m, a, b) == PushBool(m, ~BI!Eq(a, b))
OMin(m, a, b) == PushInt(m, IF BI!Le(a, b) THEN a ELSE b)
OMax(m, a, b) == PushInt(m, IF BI!Le(b, a) THEN a ELSE b)

\* SHL / SHR: shift (int) cast, 0 <= shift <= MaxShift; latest hardfork: shift 0 still converts the value
OShift(m, left) ==
    IF SLen(m) < 1 THEN Fault(m)
    ELSE LET s == Int32Of(Peek(m, 0)) IN
      IF ~s.ok \/ s.v < 0 \/ s.v > MaxShift THEN Fault(m)
      ELSE IF SLen(m) < 2 THEN Fault(m)
      ELSE LET a == IntOf(Peek(m, 1)) IN
        IF ~a.ok THEN Fault(m)
        ELSE PushInt(PopN(m, 2), IF left THEN BI!Shl(a.v, s.v) ELSE BI!Shr(a.v, s.v))

\* x1 * x2 % modulus (truncated), modulus on top
OModMul(m) ==
    IF SLen(m) < 3 THEN Fault(m)
    ELSE LET md == IntOf(Peek(m, 0))  b == IntOf(Peek(m, 1))  a == IntOf(Peek(m, 2)) IN
      IF ~md.ok \/ ~a.ok \/ ~b.ok THEN Fault(m)
      ELSE IF BI!IsZero(md.v) THEN Fault(m)
      ELSE PushInt(PopN(m, 3), BI!ModMul(a.v, b.v, md.v))

\* exponent == -1 ? value.ModInverse(modulus) : BigInteger.ModPow(value, exponent, modulus)
\* ModInverse throws for value <= 0, modulus < 2, no inverse; ModPow throws for exponent < 0, modulus = 0;
\* its result has the sign of value^exponent (remainder of a truncated division)
OModPow(m) ==
    IF SLen(m) < 3 THEN Fault(m)
    ELSE LET md == IntOf(Peek(m, 0))  e == IntOf(Peek(m, 1))  a == IntOf(Peek(m, 2))  m3 == PopN(m, 3) IN
      IF ~md.ok \/ ~a.ok \/ ~e.ok THEN Fault(m)
      ELSE IF BI!Eq(e.v, BI!MinusOne)
           THEN IF BI!Sign(a.v) <= 0 \/ BI!Lt(md.v, BI!FromInt(2)) THEN Fault(m)
                ELSE LET r == BI!ModInverse(a.v, md.v) IN IF r.ok THEN PushInt(m3, r.inv) ELSE Fault(m)
           ELSE IF e.v.neg \/ BI!IsZero(md.v) THEN Fault(m)
           ELSE PushInt(m3, BI!ModPow(a.v, e.v, md.v))

\* LT LE GT GE: a Null operand gives false, otherwise integers are compared
OCmp(m, op) ==
    IF SLen(m) < 2 THEN Fault(m)
    ELSE LET y == Peek(m, 0)  x == Peek(m, 1) IN
      IF x.t = "Null" \/ y.t = "Null" THEN PushBool(PopN(m, 2), FALSE)
      ELSE LET b == IntOf(y)  a == IntOf(x) IN
        IF ~a.ok \/ ~b.ok THEN Fault(m)
        ELSE LET c == BI!Cmp(a.v, b.v)
             IN PushBool(PopN(m, 2), CASE op = "LT" -> c < 0 [] op = "LE" -> c <= 0 [] op = "GT" -> c > 0 [] op = "GE" -> c >= 0)

\* WITHIN: a <= x < b with b on top, then a, then x
OWithin(m) ==
    IF SLen(m) < 3 THEN Fault(m)
    ELSE LET b == IntOf(Peek(m, 0))  a == IntOf(Peek(m, 1))  x == IntOf(Peek(m, 2)) IN
      IF ~a.ok \/ ~b.ok \/ ~x.ok THEN Fault(m)
      ELSE PushBool(PopN(m, 3), BI!Le(a.v, x.v) /\ BI!Lt(x.v, b.v))

OBoolNot(m) == IF SLen(m) < 1 THEN Fault(m)
               ELSE LET b == BoolOf(Peek(m, 0)) IN IF ~b.ok THEN Fault(m) ELSE PushBool(PopN(m, 1), ~b.v)
BAndOp(a, b) == a /\ b
BOrOp(a, b) == a \/ b

OEqual(m, neg) ==
    IF SLen(m) < 2 THEN Fault(m)
    ELSE LET e == ItemEq(m.heap, Peek(m, 1), Peek(m, 0))
         IN IF ~e.ok THEN Fault(m) ELSE PushBool(PopN(m, 2), e.v # neg)

-----------------------------------------------------------------------------
(* stack *)
ODepth(m) == Push(m, NatV(SLen(m)))
ODrop(m) == IF SLen(m) < 1 THEN Fault(m) ELSE PopN(m, 1)
RemoveAt(m, k) == [m EXCEPT !.stack = RemoveIdx(m.stack, Len(m.stack) - k)]      \* k from the top
ONip(m) == IF SLen(m) < 2 THEN Fault(m) ELSE RemoveAt(m, 1)
OXDrop(m, n) == IF n < 0 \/ n >= SLen(m) THEN Fault(m) ELSE RemoveAt(m, n)
OClear(m) == [m EXCEPT !.stack = <<>>]
ODup(m) == IF SLen(m) < 1 THEN Fault(m) ELSE Push(m, Peek(m, 0))
OOver(m) == IF SLen(m) < 2 THEN Fault(m) ELSE Push(m, Peek(m, 1))
OPick(m, n) == IF n < 0 \/ n >= SLen(m) THEN Fault(m) ELSE Push(m, Peek(m, n))
\* TUCK: copy of the top inserted below the second item
OTuck(m) == IF SLen(m) < 2 THEN Fault(m)
            ELSE LET n == SLen(m) IN [m EXCEPT !.stack = SubSeq(m.stack, 1, n - 2) \o <<m.stack[n], m.stack[n-1], m.stack[n]>>]
ORoll(m, n) == IF n < 0 \/ n >= SLen(m) THEN Fault(m)
               ELSE IF n = 0 THEN m ELSE Push(RemoveAt(m, n), Peek(m, n))
OReverse(m, n) == IF n < 0 \/ n > SLen(m) THEN Fault(m)
                  ELSE LET l == SLen(m) IN [m EXCEPT !.stack = SubSeq(m.stack, 1, l - n) \o Reverse(SubSeq(m.stack, l - n + 1, l))]

-----------------------------------------------------------------------------
(* slots *)
OInitSSlot(m, n) == IF m.static.ok \/ n = 0 THEN Fault(m) ELSE [m EXCEPT !.static = [ok |-> TRUE, v |-> Repeat(NullV, n)]]
\* arguments are popped from the stack: argument 0 is the top item
OInitSlot(m, l, a) ==
    LET f == Top(m) IN
    IF f.init \/ (l = 0 /\ a = 0) \/ SLen(m) < a THEN Fault(m)
    ELSE SetTop(PopN(m, a), [f EXCEPT !.init = TRUE, !.loc = Repeat(NullV, l), !.arg = [i \in 1..a |-> Peek(m, i - 1)]])
OLd(m, slot, i) == IF i + 1 > Len(slot) THEN Fault(m) ELSE Push(m, slot[i + 1])
OLdLoc(m, i) == OLd(m, Top(m).loc, i)
OLdArg(m, i) == OLd(m, Top(m).arg, i)
OLdSFld(m, i) == OLd(m, m.static.v, i)
OStLoc(m, i) == IF i + 1 > Len(Top(m).loc) \/ SLen(m) < 1 THEN Fault(m)
                ELSE SetTop(PopN(m, 1), [Top(m) EXCEPT !.loc[i + 1] = Peek(m, 0)])
OStArg(m, i) == IF i + 1 > Len(Top(m).arg) \/ SLen(m) < 1 THEN Fault(m)
                ELSE SetTop(PopN(m, 1), [Top(m) EXCEPT !.arg[i + 1] = Peek(m, 0)])
OStSFld(m, i) == IF i + 1 > Len(m.static.v) \/ SLen(m) < 1 THEN Fault(m)
                 ELSE [PopN(m, 1) EXCEPT !.static.v[i + 1] = Peek(m, 0)]

-----------------------------------------------------------------------------
(* splice *)
ONewBuffer(m, n) == IF n < 0 \/ n > MaxItemSize THEN Fault(m) ELSE NewBuf(m, Repeat(0, n))
\* MEMCPY: count, source index, source (span), destination index, destination (Buffer), top first
OMemCpy(m) ==
    IF SLen(m) < 5 THEN Fault(m)
    ELSE LET n == Int32Of(Peek(m, 0))  si == Int32Of(Peek(m, 1))  src == BytesOf(m.heap, Peek(m, 2))
             di == Int32Of(Peek(m, 3))  dst == Peek(m, 4) IN
      IF ~n.ok \/ n.v < 0 \/ ~si.ok \/ si.v < 0 \/ ~src.ok THEN Fault(m)
      ELSE IF n.v > Len(src.v) \/ si.v > Len(src.v) - n.v THEN Fault(m)      \* checked(si + count) > length, overflow-free
      ELSE IF ~di.ok \/ di.v < 0 \/ dst.t # "Buffer" THEN Fault(m)
      ELSE LET d == m.heap[dst.r].s IN
        IF n.v > Len(d) \/ di.v > Len(d) - n.v THEN Fault(m)
        ELSE [PopN(m, 5) EXCEPT !.heap[dst.r].s =
                 [i \in 1..Len(d) |-> IF i > di.v /\ i <= di.v + n.v THEN src.v[si.v + i - di.v] ELSE d[i]]]
OCat(m) ==
    IF SLen(m) < 2 THEN Fault(m)
    ELSE LET b == BytesOf(m.heap, Peek(m, 0))  a == BytesOf(m.heap, Peek(m, 1)) IN
      IF ~a.ok \/ ~b.ok THEN Fault(m)
      ELSE IF Len(a.v) + Len(b.v) > MaxItemSize THEN Fault(m)
      ELSE NewBuf(PopN(m, 2), a.v \o b.v)
OSubstr(m) ==
    IF SLen(m) < 3 THEN Fault(m)
    ELSE LET n == Int32Of(Peek(m, 0))  i == Int32Of(Peek(m, 1))  s == BytesOf(m.heap, Peek(m, 2)) IN
      IF ~n.ok \/ n.v < 0 \/ ~i.ok \/ i.v < 0 \/ ~s.ok THEN Fault(m)
      ELSE IF n.v > Len(s.v) \/ i.v > Len(s.v) - n.v THEN Fault(m)       \* index + count > length, overflow-free
      ELSE NewBuf(PopN(m, 3), SubSeq(s.v, i.v + 1, i.v + n.v))
OLeftRight(m, left) ==
    IF SLen(m) < 2 THEN Fault(m)
    ELSE LET n == Int32Of(Peek(m, 0))  s == BytesOf(m.heap, Peek(m, 1)) IN
      IF ~n.ok \/ n.v < 0 \/ ~s.ok THEN Fault(m)
      ELSE IF n.v > Len(s.v) THEN Fault(m)
      ELSE NewBuf(PopN(m, 2), IF left THEN SubSeq(s.v, 1, n.v) ELSE SubSeq(s.v, Len(s.v) - n.v + 1, Len(s.v)))

-----------------------------------------------------------------------------
(* types *)
OIsNull(m) == IF SLen(m) < 1 THEN Fault(m) ELSE PushBool(PopN(m, 1), Peek(m, 0).t = "Null")
OIsType(m, ty) == IF SLen(m) < 1 \/ ty = TAny \/ ty \notin ValidTypes THEN Fault(m)
                  ELSE PushBool(PopN(m, 1), TypeCode(Peek(m, 0)) = ty)
\* StackItem.ConvertTo and its overrides
OConvert(m, ty) ==
    IF SLen(m) < 1 THEN Fault(m)
    ELSE LET x == Peek(m, 0)  m1 == PopN(m, 1) IN
      IF x.t = "Null" THEN (IF ty = TAny \/ ty \notin ValidTypes THEN Fault(m) ELSE m)
      ELSE IF TypeCode(x) = ty THEN m
      ELSE IF ty = TBoolean THEN (LET b == BoolOf(x) IN IF b.ok THEN PushBool(m1, b.v) ELSE Fault(m))
      ELSE IF IsPrimitive(x) THEN
             CASE ty = TInteger -> (LET i == IntOf(x) IN IF i.ok THEN PushInt(m1, i.v) ELSE Fault(m))
               [] ty = TByteString -> Push(m1, BytesV(BytesOf(m.heap, x).v))
               [] ty = TBuffer -> NewBuf(m1, BytesOf(m.heap, x).v)
               [] OTHER -> Fault(m)
      ELSE IF x.t = "Buffer" THEN
             CASE ty = TInteger -> (IF Len(m.heap[x.r].s) > MaxIntBytes THEN Fault(m)
                                    ELSE PushInt(m1, BI!FromBytesLE(m.heap[x.r].s)))
               [] ty = TByteString -> Push(m1, BytesV(m.heap[x.r].s))
               [] OTHER -> Fault(m)
      ELSE IF x.t = "Array" /\ ty = TStruct THEN NewObj(m1, [k |-> "Struct", items |-> m.heap[x.r].items], "Struct")
      ELSE IF x.t = "Struct" /\ ty = TArray THEN NewObj(m1, [k |-> "Array", items |-> m.heap[x.r].items], "Array")
      ELSE Fault(m)

-----------------------------------------------------------------------------
(* compound types *)
ONewArray(m, n, kind, fill) == IF n < 0 \/ n > MaxStackSize THEN Fault(m)
                               ELSE NewObj(m, [k |-> kind, items |-> Repeat(fill, n)], kind)
ONewArrayT(m, n, ty) ==
    IF ty \notin ValidTypes THEN Fault(m)
    ELSE ONewArray(m, n, "Array", CASE ty = TBoolean -> BoolV(FALSE) [] ty = TInteger -> IntV(BI!Zero)
                                    [] ty = TByteString -> BytesV(<<>>) [] OTHER -> NullV)
\* PACK / PACKSTRUCT: item 0 is the top of the stack
OPack(m, n, kind) == IF n < 0 \/ n > SLen(m) THEN Fault(m)
                     ELSE NewObj(PopN(m, n), [k |-> kind, items |-> [i \in 1..n |-> Peek(m, i - 1)]], kind)
\* PACKMAP: key on top, then value; a repeated key keeps its first position and takes the last value
RECURSIVE PackMapRec(_, _, _, _, _)
PackMapRec(m, n, i, keys, vals) ==
    IF i = n THEN NewObj(PopN(m, 2 * n), [k |-> "Map", keys |-> keys, vals |-> vals], "Map")
    ELSE LET key == Peek(m, 2 * i)  val == Peek(m, 2 * i + 1) IN
      IF ~ValidKey(key) THEN Fault(m)
      ELSE LET j == KeyIndex(keys, key) IN
        IF j = 0 THEN PackMapRec(m, n, i + 1, Append(keys, key), Append(vals, val))
        ELSE PackMapRec(m, n, i + 1, keys, [vals EXCEPT ![j] = val])
OPackMap(m, n) == IF n < 0 \/ n > SLen(m) \div 2 THEN Fault(m) ELSE PackMapRec(m, n, 0, <<>>, <<>>)
\* UNPACK: array items pushed last-to-first (item 0 ends on top, under the count); map pairs likewise, key above value
OUnpack(m) ==
    IF SLen(m) < 1 THEN Fault(m)
    ELSE LET x == Peek(m, 0)  m1 == PopN(m, 1) IN
      IF IsArrayLike(x) THEN LET it == m.heap[x.r].items IN
             Push([m1 EXCEPT !.stack = m1.stack \o Reverse(it)], NatV(Len(it)))
      ELSE IF x.t = "Map" THEN LET ks == m.heap[x.r].keys  vs == m.heap[x.r].vals  n == Len(ks) IN
             Push([m1 EXCEPT !.stack = m1.stack \o [i \in 1..2 * n |->
                        IF i % 2 = 1 THEN vs[n - (i - 1) \div 2] ELSE ks[n - (i - 1) \div 2]]], NatV(n))
      ELSE Fault(m)
OAppend(m) ==
    IF SLen(m) < 2 THEN Fault(m)
    ELSE LET v == Peek(m, 0)  a == Peek(m, 1) IN
      IF ~IsArrayLike(a) THEN Fault(m)
      ELSE LET c == Stored(m.heap, v) IN
           [PopN(m, 2) EXCEPT !.heap = [c.heap EXCEPT ![a.r].items = Append(c.heap[a.r].items, c.v)]]
\* PICKITEM: key (PrimitiveType) on top; out-of-range index / missing key raise a CATCHABLE exception
OPickItem(m) ==
    IF SLen(m) < 2 THEN Fault(m)
    ELSE LET key == Peek(m, 0)  x == Peek(m, 1)  m2 == PopN(m, 2) IN
      IF ~IsPrimitive(key) THEN Fault(m)
      ELSE IF x.t = "Map" THEN
             IF KeySize(key) > MaxKeySize THEN Fault(m)
             ELSE LET j == KeyIndex(m.heap[x.r].keys, key) IN IF j = 0 THEN ThrowVM(m2) ELSE Push(m2, m.heap[x.r].vals[j])
      ELSE LET i == Int32Of(key) IN
        IF ~i.ok THEN Fault(m)
        ELSE IF IsArrayLike(x) THEN LET it == m.heap[x.r].items IN
               IF i.v < 0 \/ i.v >= Len(it) THEN ThrowVM(m2) ELSE Push(m2, it[i.v + 1])
        ELSE LET s == BytesOf(m.heap, x) IN
          IF ~s.ok THEN Fault(m)
          ELSE IF i.v < 0 \/ i.v >= Len(s.v) THEN ThrowVM(m2) ELSE Push(m2, NatV(s.v[i.v + 1]))
\* SETITEM: value on top (a struct is stored as a clone), key, container
OSetItem(m) ==
    IF SLen(m) < 3 THEN Fault(m)
    ELSE LET key == Peek(m, 1)  x == Peek(m, 2)  c == Stored(m.heap, Peek(m, 0))
             m3 == [PopN(m, 3) EXCEPT !.heap = c.heap] IN
      IF ~IsPrimitive(key) THEN Fault(m)
      ELSE IF x.t = "Map" THEN
             IF KeySize(key) > MaxKeySize THEN Fault(m)
             ELSE LET j == KeyIndex(m.heap[x.r].keys, key) IN
                  IF j = 0 THEN [m3 EXCEPT !.heap[x.r].keys = Append(@, key), !.heap[x.r].vals = Append(@, c.v)]
                  ELSE [m3 EXCEPT !.heap[x.r].vals[j] = c.v]
      ELSE IF IsArrayLike(x) THEN LET i == Int32Of(key) IN
             IF ~i.ok THEN Fault(m)
             ELSE IF i.v < 0 \/ i.v >= Len(m.heap[x.r].items) THEN ThrowVM(m3)
             ELSE [m3 EXCEPT !.heap[x.r].items[i.v + 1] = c.v]
      ELSE IF x.t = "Buffer" THEN LET i == Int32Of(key) IN
             IF ~i.ok THEN Fault(m)
             ELSE IF i.v < 0 \/ i.v >= Len(m.heap[x.r].s) THEN ThrowVM(m3)
             ELSE IF ~IsPrimitive(c.v) THEN Fault(m)
             ELSE LET b == Int32Of(c.v) IN
                  IF ~b.ok \/ b.v < -128 \/ b.v > 255 THEN Fault(m)
                  ELSE [m3 EXCEPT !.heap[x.r].s[i.v + 1] = (b.v + 256) % 256]
      ELSE Fault(m)
OReverseItems(m) ==
    IF SLen(m) < 1 THEN Fault(m)
    ELSE LET x == Peek(m, 0) IN
      IF IsArrayLike(x) THEN [PopN(m, 1) EXCEPT !.heap[x.r].items = Reverse(@)]
      ELSE IF x.t = "Buffer" THEN [PopN(m, 1) EXCEPT !.heap[x.r].s = Reverse(@)]
      ELSE Fault(m)
\* REMOVE: a bad array index is NOT catchable; a missing map key is not an error
ORemove(m) ==
    IF SLen(m) < 2 THEN Fault(m)
    ELSE LET key == Peek(m, 0)  x == Peek(m, 1)  m2 == PopN(m, 2) IN
      IF ~IsPrimitive(key) THEN Fault(m)
      ELSE IF IsArrayLike(x) THEN LET i == Int32Of(key) IN
             IF ~i.ok \/ i.v < 0 \/ i.v >= Len(m.heap[x.r].items) THEN Fault(m)
             ELSE [m2 EXCEPT !.heap[x.r].items = RemoveIdx(@, i.v + 1)]
      ELSE IF x.t = "Map" THEN
             IF KeySize(key) > MaxKeySize THEN Fault(m)
             ELSE LET j == KeyIndex(m.heap[x.r].keys, key) IN
                  IF j = 0 THEN m2 ELSE [m2 EXCEPT !.heap[x.r].keys = RemoveIdx(@, j), !.heap[x.r].vals = RemoveIdx(@, j)]
      ELSE Fault(m)
OClearItems(m) ==
    IF SLen(m) < 1 THEN Fault(m)
    ELSE LET x == Peek(m, 0) IN
      IF IsArrayLike(x) THEN [PopN(m, 1) EXCEPT !.heap[x.r].items = <<>>]
      ELSE IF x.t = "Map" THEN [PopN(m, 1) EXCEPT !.heap[x.r].keys = <<>>, !.heap[x.r].vals = <<>>]
      ELSE Fault(m)
OPopItem(m) ==
    IF SLen(m) < 1 THEN Fault(m)
    ELSE LET x == Peek(m, 0) IN
      IF ~IsArrayLike(x) THEN Fault(m)
      ELSE LET it == m.heap[x.r].items IN
        IF it = <<>> THEN Fault(m)
        ELSE Push([PopN(m, 1) EXCEPT !.heap[x.r].items = SubSeq(it, 1, Len(it) - 1)], it[Len(it)])
OSize(m) ==
    IF SLen(m) < 1 THEN Fault(m)
    ELSE LET x == Peek(m, 0)  m1 == PopN(m, 1) IN
      IF IsArrayLike(x) THEN Push(m1, NatV(Len(m.heap[x.r].items)))
      ELSE IF x.t = "Map" THEN Push(m1, NatV(Len(m.heap[x.r].keys)))
      ELSE LET s == BytesOf(m.heap, x) IN IF s.ok THEN Push(m1, NatV(Len(s.v))) ELSE Fault(m)
\* HASKEY: negative index throws; latest hardfork: an index >= MaxItemSize throws as well
OHasKey(m) ==
    IF SLen(m) < 2 THEN Fault(m)
    ELSE LET key == Peek(m, 0)  x == Peek(m, 1)  m2 == PopN(m, 2) IN
      IF ~IsPrimitive(key) THEN Fault(m)
      ELSE IF x.t = "Map" THEN
             IF KeySize(key) > MaxKeySize THEN Fault(m) ELSE PushBool(m2, KeyIndex(m.heap[x.r].keys, key) # 0)
      ELSE IF IsArrayLike(x) \/ x.t \in {"Buffer", "ByteString"} THEN LET i == Int32Of(key) IN
             IF ~i.ok \/ i.v < 0 \/ i.v >= MaxItemSize THEN Fault(m)
             ELSE PushBool(m2, i.v < (IF IsArrayLike(x) THEN Len(m.heap[x.r].items) ELSE Len(BytesOf(m.heap, x).v)))
      ELSE Fault(m)
OKeys(m) ==
    IF SLen(m) < 1 THEN Fault(m)
    ELSE LET x == Peek(m, 0) IN
      IF x.t # "Map" THEN Fault(m) ELSE NewObj(PopN(m, 1), [k |-> "Array", items |-> m.heap[x.r].keys], "Array")
\* VALUES: a new array; struct values are cloned
RECURSIVE StoreAll(_, _, _, _)
StoreAll(heap, items, i, acc) ==
    IF i > Len(items) THEN [heap |-> heap, items |-> acc]
    ELSE LET c == Stored(heap, items[i]) IN StoreAll(c.heap, items, i + 1, Append(acc, c.v))
OValues(m) ==
    IF SLen(m) < 1 THEN Fault(m)
    ELSE LET x == Peek(m, 0) IN
      IF ~IsCompound(x) THEN Fault(m)
      ELSE LET src == IF x.t = "Map" THEN m.heap[x.r].vals ELSE m.heap[x.r].items
               c == StoreAll(m.heap, src, 1, <<>>)
           IN NewObj([PopN(m, 1) EXCEPT !.heap = c.heap], [k |-> "Array", items |-> c.items], "Array")

-----------------------------------------------------------------------------
(* control *)
\* Reference (JumpTable.Control.cs: `if (cond) ExecuteJumpOffset(...)`): the offset operand of a conditional jump is
\* looked at only when the jump is taken; an untaken jump with a target outside the script just continues.
NotTaken(m, pc, off) == m
OJmpIf(m, pc, off, want) ==
    IF SLen(m) < 1 THEN Fault(m)
    ELSE LET b == BoolOf(Peek(m, 0)) IN
      IF ~b.ok THEN Fault(m) ELSE IF b.v = want THEN Jump(PopN(m, 1), pc, off) ELSE NotTaken(PopN(m, 1), pc, off)
OJmpCmp(m, pc, off, op) ==
    IF SLen(m) < 2 THEN Fault(m)
    ELSE LET b == IntOf(Peek(m, 0))  a == IntOf(Peek(m, 1)) IN
      IF ~a.ok \/ ~b.ok THEN Fault(m)
      ELSE LET c == BI!Cmp(a.v, b.v)
               t == CASE op = "JMPEQ" -> c = 0 [] op = "JMPNE" -> c # 0 [] op = "JMPGT" -> c > 0
                      [] op = "JMPGE" -> c >= 0 [] op = "JMPLT" -> c < 0 [] op = "JMPLE" -> c <= 0
           IN IF t THEN Jump(PopN(m, 2), pc, off) ELSE NotTaken(PopN(m, 2), pc, off)
OCallAt(m, t) == IF t < 1 \/ t > Len(m.prog) THEN Skip(m)
                 ELSE IF NF(m) >= 64 THEN Skip(m)                     \* invocation depth limit (1024) is C12's
                 ELSE [m EXCEPT !.frames = Append(m.frames, Frame0(t))]
OCallA(m) == IF SLen(m) < 1 THEN Fault(m)
             ELSE IF Peek(m, 0).t # "Pointer" THEN Fault(m) ELSE OCallAt(PopN(m, 1), Peek(m, 0).p)
ORet(m) == LET m1 == [m EXCEPT !.frames = SubSeq(m.frames, 1, NF(m) - 1)]
           IN IF NF(m1) = 0 THEN [m1 EXCEPT !.st = "HALT"] ELSE m1
OThrow(m) == IF SLen(m) < 1 THEN Fault(m) ELSE Throw(PopN(m, 1), Peek(m, 0))
OAssert(m) == IF SLen(m) < 1 THEN Fault(m)
              ELSE LET b == BoolOf(Peek(m, 0)) IN IF ~b.ok \/ ~b.v THEN Fault(m) ELSE PopN(m, 1)
\* ASSERTMSG / ABORTMSG take a message that must be a strict UTF-8 string: only 7-bit messages are claimed
Ascii(s) == \A i \in 1..Len(s) : s[i] < 128
OAssertMsg(m) ==
    IF SLen(m) < 2 THEN Fault(m)
    ELSE LET msg == BytesOf(m.heap, Peek(m, 0))  b == BoolOf(Peek(m, 1)) IN
      IF ~msg.ok THEN Fault(m)
      ELSE IF ~Ascii(msg.v) THEN Skip(m)
      ELSE IF ~b.ok \/ ~b.v THEN Fault(m) ELSE PopN(m, 2)
\* TRY: both offsets zero is an error; at most MaxTryDepth nested contexts per frame
OTry(m, pc, c, f) ==
    LET fr == Top(m) IN
    IF c = 0 /\ f = 0 THEN Fault(m)
    ELSE IF Len(fr.try) >= MaxTryDepth THEN Fault(m)
    ELSE IF (c # 0 /\ (pc + c < 1 \/ pc + c > Len(m.prog))) \/ (f # 0 /\ (pc + f < 1 \/ pc + f > Len(m.prog))) THEN Skip(m)
    ELSE SetTop(m, [fr EXCEPT !.try = Append(@, [catch |-> IF c = 0 THEN 0 ELSE pc + c, fin |-> IF f = 0 THEN 0 ELSE pc + f,
                                                  end |-> 0, state |-> "T"])])
OEndTry(m, pc, off) ==
    LET fr == Top(m)  n == Len(fr.try) IN
    IF n = 0 THEN Fault(m)
    ELSE IF fr.try[n].state = "F" THEN Fault(m)
    ELSE IF pc + off < 1 \/ pc + off > Len(m.prog) THEN Skip(m)
    ELSE IF fr.try[n].fin # 0
         THEN SetTop(m, [fr EXCEPT !.try[n].state = "F", !.try[n].end = pc + off, !.pc = fr.try[n].fin])
         ELSE SetTop(m, [fr EXCEPT !.try = SubSeq(@, 1, n - 1), !.pc = pc + off])
\* ENDFINALLY: the try context is popped first; with no pending exception execution continues at its end
\* pointer (unset = -1: fault), otherwise the pending exception is re-thrown.
\* Executed while the top context is not in its FINALLY block (ill-formed code) this is marked as a quirk.
OEndFinally(m) ==
    LET fr == Top(m)  n == Len(fr.try) IN
    IF n = 0 THEN (IF m.exc = <<>> THEN Fault(m) ELSE Quirk(Fault(m), "endfinally-no-try-pending-exception"))
    ELSE LET tc == fr.try[n]
             m0 == IF tc.state = "F" \/ m.exc = <<>> THEN m ELSE Quirk(m, "endfinally-outside-finally-pending-exception")
             m1 == SetTop(m0, [fr EXCEPT !.try = SubSeq(@, 1, n - 1)]) IN
      IF m.exc = <<>> THEN (IF tc.end = 0 THEN Fault(m1) ELSE SetTop(m1, [Top(m1) EXCEPT !.pc = tc.end]))
      ELSE Handle(m1, NF(m1))

-----------------------------------------------------------------------------
PushConst == [PUSHM1 |-> -1, PUSH0 |-> 0, PUSH1 |-> 1, PUSH2 |-> 2, PUSH3 |-> 3, PUSH4 |-> 4, PUSH5 |-> 5, PUSH6 |-> 6,
              PUSH7 |-> 7, PUSH8 |-> 8, PUSH9 |-> 9, PUSH10 |-> 10, PUSH11 |-> 11, PUSH12 |-> 12, PUSH13 |-> 13,
              PUSH14 |-> 14, PUSH15 |-> 15, PUSH16 |-> 16]
PushIntWidth == [PUSHINT8 |-> 1, PUSHINT16 |-> 2, PUSHINT32 |-> 4, PUSHINT64 |-> 8, PUSHINT128 |-> 16, PUSHINT256 |-> 32]
\* short slot forms: <<kind, index>>
ShortSlot ==
    [LDSFLD0 |-> <<"LDSFLD", 0>>, LDSFLD1 |-> <<"LDSFLD", 1>>, LDSFLD2 |-> <<"LDSFLD", 2>>, LDSFLD3 |-> <<"LDSFLD", 3>>,
     LDSFLD4 |-> <<"LDSFLD", 4>>, LDSFLD5 |-> <<"LDSFLD", 5>>, LDSFLD6 |-> <<"LDSFLD", 6>>,
     STSFLD0 |-> <<"STSFLD", 0>>, STSFLD1 |-> <<"STSFLD", 1>>, STSFLD2 |-> <<"STSFLD", 2>>, STSFLD3 |-> <<"STSFLD", 3>>,
     STSFLD4 |-> <<"STSFLD", 4>>, STSFLD5 |-> <<"STSFLD", 5>>, STSFLD6 |-> <<"STSFLD", 6>>,
     LDLOC0 |-> <<"LDLOC", 0>>, LDLOC1 |-> <<"LDLOC", 1>>, LDLOC2 |-> <<"LDLOC", 2>>, LDLOC3 |-> <<"LDLOC", 3>>,
     LDLOC4 |-> <<"LDLOC", 4>>, LDLOC5 |-> <<"LDLOC", 5>>, LDLOC6 |-> <<"LDLOC", 6>>,
     STLOC0 |-> <<"STLOC", 0>>, STLOC1 |-> <<"STLOC", 1>>, STLOC2 |-> <<"STLOC", 2>>, STLOC3 |-> <<"STLOC", 3>>,
     STLOC4 |-> <<"STLOC", 4>>, STLOC5 |-> <<"STLOC", 5>>, STLOC6 |-> <<"STLOC", 6>>,
     LDARG0 |-> <<"LDARG", 0>>, LDARG1 |-> <<"LDARG", 1>>, LDARG2 |-> <<"LDARG", 2>>, LDARG3 |-> <<"LDARG", 3>>,
     LDARG4 |-> <<"LDARG", 4>>, LDARG5 |-> <<"LDARG", 5>>, LDARG6 |-> <<"LDARG", 6>>,
     STARG0 |-> <<"STARG", 0>>, STARG1 |-> <<"STARG", 1>>, STARG2 |-> <<"STARG", 2>>, STARG3 |-> <<"STARG", 3>>,
     STARG4 |-> <<"STARG", 4>>, STARG5 |-> <<"STARG", 5>>, STARG6 |-> <<"STARG", 6>>]
\* long forms behave like the short ones
LongForm == [JMPL |-> "JMP", JMPIFL |-> "JMPIF", JMPIFNOTL |-> "JMPIFNOT", JMPEQL |-> "JMPEQ", JMPNEL |-> "JMPNE",
             JMPGTL |-> "JMPGT", JMPGEL |-> "JMPGE", JMPLTL |-> "JMPLT", JMPLEL |-> "JMPLE", CALLL |-> "CALL",
             TRYL |-> "TRY", ENDTRYL |-> "ENDTRY"]

SlotOp(m, kind, i) ==
    CASE kind = "LDSFLD" -> OLdSFld(m, i) [] kind = "STSFLD" -> OStSFld(m, i)
      [] kind = "LDLOC" -> OLdLoc(m, i) [] kind = "STLOC" -> OStLoc(m, i)
      [] kind = "LDARG" -> OLdArg(m, i) [] kind = "STARG" -> OStArg(m, i)

\* m has its program counter already advanced; pc is the index of ins
Exec(m, ins, pc) ==
    LET op == IF ins.op \in DOMAIN LongForm THEN LongForm[ins.op] ELSE ins.op IN
    CASE op \in DOMAIN PushIntWidth -> (IF Len(ins.b) # PushIntWidth[op] THEN Skip(m) ELSE Push(m, IntV(BI!FromBytesLE(ins.b))))
      [] op \in DOMAIN PushConst -> Push(m, NatV(PushConst[op]))
      [] op = "PUSHT" -> PushBool(m, TRUE)
      [] op = "PUSHF" -> PushBool(m, FALSE)
      [] op = "PUSHNULL" -> Push(m, NullV)
      [] op \in {"PUSHDATA1", "PUSHDATA2", "PUSHDATA4"} -> (IF Len(ins.b) > MaxItemSize THEN Skip(m) ELSE Push(m, BytesV(ins.b)))
      [] op = "PUSHA" -> (IF pc + ins.off < 1 \/ pc + ins.off > Len(m.prog) THEN Skip(m) ELSE Push(m, PtrV(pc + ins.off)))
      [] op = "NOP" -> m
      [] op = "JMP" -> Jump(m, pc, ins.off)
      [] op = "JMPIF" -> OJmpIf(m, pc, ins.off, TRUE)
      [] op = "JMPIFNOT" -> OJmpIf(m, pc, ins.off, FALSE)
      [] op \in {"JMPEQ", "JMPNE", "JMPGT", "JMPGE", "JMPLT", "JMPLE"} -> OJmpCmp(m, pc, ins.off, op)
      [] op = "CALL" -> OCallAt(m, pc + ins.off)
      [] op = "CALLA" -> OCallA(m)
      [] op = "ABORT" -> Fault(m)
      [] op = "ABORTMSG" -> Fault(m)
      [] op = "ASSERT" -> OAssert(m)
      [] op = "ASSERTMSG" -> OAssertMsg(m)
      [] op = "THROW" -> OThrow(m)
      [] op = "TRY" -> OTry(m, pc, ins.c, ins.f)
      [] op = "ENDTRY" -> OEndTry(m, pc, ins.off)
      [] op = "ENDFINALLY" -> OEndFinally(m)
      [] op = "RET" -> ORet(m)
      [] op = "DEPTH" -> ODepth(m)
      [] op = "DROP" -> ODrop(m)
      [] op = "NIP" -> ONip(m)
      [] op = "XDROP" -> Idx(m, OXDrop)
      [] op = "CLEAR" -> OClear(m)
      [] op = "DUP" -> ODup(m)
      [] op = "OVER" -> OOver(m)
      [] op = "PICK" -> Idx(m, OPick)
      [] op = "TUCK" -> OTuck(m)
      [] op = "SWAP" -> (IF SLen(m) < 2 THEN Fault(m) ELSE ORoll(m, 1))
      [] op = "ROT" -> (IF SLen(m) < 3 THEN Fault(m) ELSE ORoll(m, 2))
      [] op = "ROLL" -> Idx(m, ORoll)
      [] op = "REVERSE3" -> OReverse(m, 3)
      [] op = "REVERSE4" -> OReverse(m, 4)
      [] op = "REVERSEN" -> Idx(m, OReverse)
      [] op = "INITSSLOT" -> OInitSSlot(m, ins.n)
      [] op = "INITSLOT" -> OInitSlot(m, ins.l, ins.a)
      [] op \in DOMAIN ShortSlot -> SlotOp(m, ShortSlot[op][1], ShortSlot[op][2])
      [] op \in {"LDSFLD", "STSFLD", "LDLOC", "STLOC", "LDARG", "STARG"} -> SlotOp(m, op, ins.i)
      [] op = "NEWBUFFER" -> Idx(m, ONewBuffer)
      [] op = "MEMCPY" -> OMemCpy(m)
      [] op = "CAT" -> OCat(m)
      [] op = "SUBSTR" -> OSubstr(m)
      [] op = "LEFT" -> OLeftRight(m, TRUE)
      [] op = "RIGHT" -> OLeftRight(m, FALSE)
      [] op = "INVERT" -> Un(m, ONot)
      [] op = "AND" -> Bin(m, OAnd)
      [] op = "OR" -> Bin(m, OOr)
      [] op = "XOR" -> Bin(m, OXor)
      [] op = "EQUAL" -> OEqual(m, FALSE)
      [] op = "NOTEQUAL" -> OEqual(m, TRUE)
      [] op = "SIGN" -> Un(m, OSign)
      [] op = "ABS" -> Un(m, OAbs)
      [] op = "NEGATE" -> Un(m, ONeg)
      [] op = "INC" -> Un(m, OInc)
      [] op = "DEC" -> Un(m, ODec)
      [] op = "ADD" -> Bin(m, OAdd)
      [] op = "SUB" -> Bin(m, OSub)
      [] op = "MUL" -> Bin(m, OMul)
      [] op = "DIV" -> Bin(m, ODiv)
      [] op = "MOD" -> Bin(m, OMod)
      [] op = "POW" -> Bin(m, OPow)
      [] op = "SQRT" -> Un(m, OSqrt)
      [] op = "MODMUL" -> OModMul(m)
      [] op = "MODPOW" -> OModPow(m)
      [] op = "SHL" -> OShift(m, TRUE)
      [] op = "SHR" -> OShift(m, FALSE)
      [] op = "NOT" -> OBoolNot(m)
      [] op = "BOOLAND" -> BinBool(m, BAndOp)
      [] op = "BOOLOR" -> BinBool(m, BOrOp)
      [] op = "NZ" -> Un(m, ONz)
      [] op = "NUMEQUAL" -> Bin(m, ONumEq)
      [] op = "NUMNOTEQUAL" -> Bin(m, ONumNe)
      [] op \in {"LT", "LE", "GT", "GE"} -> OCmp(m, op)
      [] op = "MIN" -> Bin(m, OMin)
      [] op = "MAX" -> Bin(m, OMax)
      [] op = "WITHIN" -> OWithin(m)
      [] op = "PACKMAP" -> Idx(m, OPackMap)
      [] op = "PACKSTRUCT" -> Idx(m, LAMBDA mm, n : OPack(mm, n, "Struct"))
      [] op = "PACK" -> Idx(m, LAMBDA mm, n : OPack(mm, n, "Array"))
      [] op = "UNPACK" -> OUnpack(m)
      [] op = "NEWARRAY0" -> NewObj(m, [k |-> "Array", items |-> <<>>], "Array")
      [] op = "NEWARRAY" -> Idx(m, LAMBDA mm, n : ONewArray(mm, n, "Array", NullV))
      [] op = "NEWARRAYT" -> Idx(m, LAMBDA mm, n : ONewArrayT(mm, n, ins.ty))
      [] op = "NEWSTRUCT0" -> NewObj(m, [k |-> "Struct", items |-> <<>>], "Struct")
      [] op = "NEWSTRUCT" -> Idx(m, LAMBDA mm, n : ONewArray(mm, n, "Struct", NullV))
      [] op = "NEWMAP" -> NewObj(m, [k |-> "Map", keys |-> <<>>, vals |-> <<>>], "Map")
      [] op = "SIZE" -> OSize(m)
      [] op = "HASKEY" -> OHasKey(m)
      [] op = "KEYS" -> OKeys(m)
      [] op = "VALUES" -> OValues(m)
      [] op = "PICKITEM" -> OPickItem(m)
      [] op = "APPEND" -> OAppend(m)
      [] op = "SETITEM" -> OSetItem(m)
      [] op = "REVERSEITEMS" -> OReverseItems(m)
      [] op = "REMOVE" -> ORemove(m)
      [] op = "CLEARITEMS" -> OClearItems(m)
      [] op = "POPITEM" -> OPopItem(m)
      [] op = "ISNULL" -> OIsNull(m)
      [] op = "ISTYPE" -> OIsType(m, ins.ty)
      [] op = "CONVERT" -> OConvert(m, ins.ty)
      [] OTHER -> Skip(m)

\* number of items held (over-approximation of the reference counter)
RECURSIVE HeapItems(_, _)
HeapItems(heap, i) == IF i = 0 THEN 0
                      ELSE HeapItems(heap, i - 1) +
                           (CASE heap[i].k = "Buffer" -> 0 [] heap[i].k = "Map" -> 2 * Len(heap[i].keys) [] OTHER -> Len(heap[i].items))
Items(m) == Len(m.stack) + HeapItems(m.heap, Len(m.heap))

Step(m) ==
    LET f == Top(m)  pc == f.pc IN
    IF pc > Len(m.prog) THEN ORet(m)                       \* running off the end is RET
    ELSE LET m1 == Exec(SetTop(m, [f EXCEPT !.pc = pc + 1]), m.prog[pc], pc)
         IN IF m1.st = "RUN" /\ Items(m1) > GuardItems THEN Skip(m1) ELSE m1

RECURSIVE Run(_, _)
Run(m, fuel) == IF m.st # "RUN" THEN m
                ELSE IF fuel = 0 THEN Skip(m)
                ELSE Run(Step(m), fuel - 1)
-----------------------------------------------------------------------------
(* TRIAGE NOTES - every disagreement between this specification and pkg/vm on the unchanged tree
   (quick and thorough tiers, seeds 1 2 3 7 11), and what was narrowed.

   Disagreements
   1. Conditional jump NOT taken whose offset points outside the script (JMPIF/JMPIFNOT/JMPEQ.. and long forms):
      reference: the offset is only used by ExecuteJumpOffset inside `if (condition)`, execution continues;
      pkg/vm: getJumpOffset() runs before the condition is evaluated and faults ("invalid offset").
      Transcription checked (JumpTable.Control.cs); resolution: the CODE deviates -> reported as a finding
      (signature kind=semantics, op=untaken-jump-out-of-range, expected HALT, observed FAULT).
   2. ENDFINALLY executed in a frame whose try stack is empty while an exception is pending (only reachable
      with ill-formed code: a CALL inside a finally block to code that executes ENDFINALLY):
      reference (as I remember EndFinally): "The corresponding TRY block cannot be found" -> FAULT;
      pkg/vm: handleException() continues unwinding in the calling frames and an outer catch can take it.
      Not established from this tree -> quirk "endfinally-no-try-pending-exception": drift, not a verdict.
      Same for ENDFINALLY while the top try context is not in its finally block and an exception is
      pending (reference pops that context first; pkg/vm lets it catch): on the template here both agree.
   No transcription error of mine survived to the first full run apart from test-template offsets.

   Narrowed (not claimed, executions end in st = "SKIP" or are not generated)
   - taken jumps / CALL / PUSHA / TRY / ENDTRY whose target is outside instructions 1..n, including the
     position just past the end (reference checks such offsets lazily at the transfer, pkg/vm eagerly at
     the instruction; jump-to-end behaviour differs between reference versions);
   - jump targets inside an instruction (byte level), truncated scripts, invalid opcodes: C12's subject;
   - text of engine-raised catchable exceptions (opaque ByteString), cases that keep such an item are
     generated only where it is dropped or only its type is inspected;
   - ASSERTMSG messages that are not 7-bit (strict UTF-8 decoding not modelled);
   - executions holding more than 1000 items, deeper than 64 frames or longer than 400 steps (the
     2048-item / 1024-frame limits and gas are C12's); struct comparison/clone limits; PUSHDATA4 above
     MaxItemSize; SYSCALL, CALLT, interop items (external effects). *)
=============================================================================
