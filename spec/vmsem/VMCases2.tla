------------------------------- MODULE VMCases2 -------------------------------
(* Second half of the C13 input space: splice, compound types, control flow and exception templates,
   exhaustive short instruction sequences.  AllCases is what VMEnum enumerates. *)
EXTENDS VMCases

PI(k) == [op |-> "PUSHINT32", b |-> PadBytes(I(k), 4)]          \* any int32 as an instruction
PD(s) == [op |-> "PUSHDATA1", b |-> s]
J(o, off) == [op |-> o, off |-> off]
TRY(c, f) == [op |-> "TRY", c |-> c, f |-> f]
TRYL(c, f) == [op |-> "TRYL", c |-> c, f |-> f]
Ops(names) == [i \in 1..Len(names) |-> Op(names[i])]

-----------------------------------------------------------------------------
(* splice *)
Hello == <<104, 101, 108, 108, 111>>
SizeLits == IntLits(<< I(65535), I(65536), I(131069), I(131070), I(131071), I(2147483647) >>)
FamNewBuffer == [i \in 1..Len(SizeLits) |-> Case("newbuffer", <<Op("NEWBUFFER")>>, <<SizeLits[i]>>, 0)]
CatArgs == << LB(<<>>), LB(<<1>>), LB(Hello), LBuf(<<>>), LBuf(<<7, 8>>), LK(0), LK(-1), LK(256), LBool(TRUE), LBool(FALSE), LNull, LArr(<<>>) >>
FamCat == Prod2(CatArgs, CatArgs, LAMBDA x, y, i, j : Case("cat", <<Op("CAT")>>, <<x, y>>, 0))
          \o Prod2(LongStrs \o LongBufs, LongStrs \o <<LB(<<>>), LB(<<1>>), LBuf(<<1, 2>>)>>, LAMBDA x, y, i, j : Case("catlong", <<Op("CAT")>>, <<x, y>>, 0))
          \o Prod2(<<LB(<<>>), LB(<<1>>)>>, LongStrs, LAMBDA x, y, i, j : Case("catlong", <<Op("CAT")>>, <<x, y>>, 0))
SpliceStrs == << LB(<<>>), LB(Hello), LBuf(Hello), LI(BI!Sub(P(63), I(1))), LBool(TRUE), LNull, LMap(<<>>, <<>>) >>
SpliceIdx == IntLits(<< I(-1), I(0), I(1), I(4), I(5), I(6), I(2147483647), BI!Add(I(2147483647), I(1)) >>) \o <<LNull, LB(<<2>>)>>
FamSubstr == TProd3(SpliceStrs, SpliceIdx, SpliceIdx, LAMBDA s, x, y, i, j, l : Case("substr", <<Op("SUBSTR")>>, <<s, x, y>>, 0), T(20))
FamLeftRight == Prod3(<<"LEFT", "RIGHT">>, SpliceStrs, SpliceIdx, LAMBDA o, s, x, i, j, l : Case("leftright", <<Op(o)>>, <<s, x>>, 0))
FamSpliceLong == Prod3(<<"LEFT", "RIGHT", "SUBSTR1">>, <<LongGen(131070), LongBufs[2]>>,
                       IntLits(<<I(0), I(1), I(65535), I(131069), I(131070), I(131071)>>),
                       LAMBDA o, s, x, i, j, l : IF o = "SUBSTR1" THEN Case("splicelong", <<Op("SUBSTR")>>, <<s, LK(1), x>>, 0)
                                                 ELSE Case("splicelong", <<Op(o)>>, <<s, x>>, 0))
\* MEMCPY: destination kept in a static field so that the result is visible; src "self" aliases the destination
MemSrc == << <<PD(<<1, 2, 3, 4>>)>>, <<Op("LDSFLD0")>>, <<PI(67305985)>>, <<PD(<<1, 2, 3, 4>>), [op |-> "CONVERT", ty |-> TBuffer]>>, <<Op("PUSHNULL")>> >>
MemIdx == << -1, 0, 1, 3, 4, 5, 7, 8, 9, 2147483647 >>
FamMemCpy == TProd4(MemIdx, MemSrc, MemIdx, MemIdx, LAMBDA di, src, si, n, h, i, j, l :
                 Case("memcpy", <<[op |-> "INITSSLOT", n |-> 1], Op("STSFLD0"), Op("LDSFLD0"), PI(di)>> \o src \o <<PI(si), PI(n), Op("MEMCPY"), Op("LDSFLD0")>>,
                      <<LBuf([k \in 1..8 |-> 10 * k])>>, 0), T(2))
             \o << Case("memcpy", <<Op("MEMCPY")>>, <<LB(<<1, 2, 3>>), LK(0), LB(<<9>>), LK(0), LK(1)>>, 0),       \* destination must be a Buffer
                   Case("memcpy", <<Op("DUP"), PI(0), PD(<<9>>), PI(0), PI(1), Op("MEMCPY")>>, <<LongBufs[2]>>, 0) >>

-----------------------------------------------------------------------------
(* compound types *)
Containers == << LArr(<<>>), LArr(<<LK(1), LK(2), LK(3)>>), LStruct(<<LK(1), LB(<<2>>), LNull>>), LArr(<<LStruct(<<LK(1)>>), LArr(<<LK(2)>>)>>),
                 LMap(<<>>, <<>>), LMap(<<LK(1), LB(<<107>>), LBool(TRUE), LK(0)>>, <<LK(10), LStruct(<<LK(5)>>), LNull, LB(<<1>>)>>),
                 BigMap, LBuf(<<5, 6, 7>>), LB(<<5, 6, 7>>), LB(<<>>), LK(259), LBool(TRUE), LNull >>
Keys == IntLits(<< I(-1), I(0), I(1), I(2), I(3), I(4), I(131069), I(131070), I(2147483647), BI!Add(I(2147483647), I(1)), BI!Neg(P(255)) >>)
        \o << LBool(TRUE), LBool(FALSE), LB(<<>>), LB(<<1>>), LB(<<107>>), LB(<<1, 0>>), LB([i \in 1..64 |-> i]), LB([i \in 1..65 |-> i]),
              LNull, LBuf(<<1>>), LArr(<<>>) >>
FamKeyed == TProd3(<<"PICKITEM", "HASKEY">>, Containers, Keys, LAMBDA o, c, k, i, j, l : Case("keyed", <<Op(o)>>, <<c, k>>, 0), T(40))
FamRemove == Prod2(Containers, Keys, LAMBDA c, k, i, j : Case("remove", Ops(<<"OVER", "SWAP", "REMOVE">>), <<c, k>>, 0))
SetVals == << LK(7), LK(-128), LK(-129), LK(255), LK(256), LB(<<65>>), LB(Repeat(0, 33)), LBool(TRUE), LNull, LBuf(<<1>>), LArr(<<LK(1)>>),
              LStruct(<<LK(1), LStruct(<<LK(2)>>)>>), LMap(<<>>, <<>>) >>
FamSetItem == TProd3(Containers, Keys, SetVals, LAMBDA c, k, v, i, j, l :
                  Case("setitem", <<Op("PUSH2"), Op("PICK"), Op("REVERSE3"), Op("SWAP"), Op("SETITEM")>>, <<c, k, v>>, 0), T(8))
FamAppend == Prod2(Containers, SetVals, LAMBDA c, v, i, j : Case("append", Ops(<<"OVER", "SWAP", "APPEND">>), <<c, v>>, 0))
FamMutate == Prod2(<<"REVERSEITEMS", "CLEARITEMS", "POPITEM", "KEYS", "VALUES", "UNPACK", "SIZE">>, Containers,
                   LAMBDA o, c, i, j : Case("mutate", <<Op("DUP"), Op(o)>>, <<c>>, 0))
\* identity and cloning
S12 == LStruct(<<LK(1), LStruct(<<LK(2), LB(<<3>>)>>)>>)
FamIdentity == <<
    Case("identity", Ops(<<"EQUAL">>), <<S12, S12>>, 0),                                        \* structs: structural
    Case("identity", Ops(<<"EQUAL">>), <<S12, LStruct(<<LK(1), LStruct(<<LK(2), LB(<<4>>)>>)>>)>>, 0),
    Case("identity", Ops(<<"EQUAL">>), <<S12, LStruct(<<LK(1), LArr(<<LK(2), LB(<<3>>)>>)>>)>>, 0),
    Case("identity", Ops(<<"EQUAL">>), <<LStruct(<<LK(1)>>), LStruct(<<LBool(TRUE)>>)>>, 0),
    Case("identity", Ops(<<"EQUAL">>), <<LStruct(<<LK(1)>>), LStruct(<<LB(<<1>>)>>)>>, 0),
    Case("identity", Ops(<<"EQUAL">>), <<LStruct(<<LArr(<<>>)>>), LStruct(<<LArr(<<>>)>>)>>, 0),        \* arrays inside: by reference
    Case("identity", Ops(<<"DUP", "EQUAL">>), <<LStruct(<<LArr(<<>>)>>)>>, 0),
    Case("identity", Ops(<<"EQUAL">>), <<LArr(<<LK(1)>>), LArr(<<LK(1)>>)>>, 0),
    Case("identity", Ops(<<"DUP", "EQUAL">>), <<LArr(<<LK(1)>>)>>, 0),
    Case("identity", Ops(<<"EQUAL">>), <<LBuf(<<1>>), LBuf(<<1>>)>>, 0),
    Case("identity", Ops(<<"DUP", "EQUAL">>), <<LBuf(<<1>>)>>, 0),
    Case("identity", Ops(<<"EQUAL">>), <<LMap(<<>>, <<>>), LMap(<<>>, <<>>)>>, 0),
    Case("identity", Ops(<<"EQUAL">>), <<LB(<<1>>), LBuf(<<1>>)>>, 0),
    Case("identity", Ops(<<"EQUAL">>), <<LongGen(65536), LongGen(65536)>>, 0),
    Case("identity", Ops(<<"EQUAL">>), <<LongGen(65537), LB(<<>>)>>, 0),
    Case("identity", Ops(<<"EQUAL">>), <<LB(<<>>), LongGen(65537)>>, 0),
    Case("identity", Ops(<<"EQUAL">>), <<LK(1), LongGen(65537)>>, 0),
    Case("identity", Ops(<<"NOTEQUAL">>), <<LongGen(65535), LongGen(65536)>>, 0),
    \* APPEND / SETITEM / VALUES store a clone of a struct: later changes of the original are not seen
    Case("clone", Ops(<<"NEWARRAY0", "DUP", "PUSH2", "PICK", "APPEND", "SWAP", "PUSH9", "APPEND">>), <<LStruct(<<LK(1), LStruct(<<LK(2)>>)>>)>>, 0),
    Case("clone", Ops(<<"NEWARRAY0", "DUP", "PUSH2", "PICK", "APPEND", "SWAP", "PUSH1", "PICKITEM", "PUSH9", "APPEND">>), <<LStruct(<<LK(1), LStruct(<<LK(2)>>)>>)>>, 0),
    Case("clone", Ops(<<"NEWARRAY0", "DUP", "PUSH2", "PICK", "APPEND", "SWAP", "PUSH1", "PICKITEM", "PUSH9", "APPEND">>), <<LStruct(<<LK(1), LArr(<<LK(2)>>)>>)>>, 0),
    Case("clone", Ops(<<"DUP", "VALUES", "SWAP", "PUSH0", "PICKITEM", "PUSH9", "APPEND">>), <<LArr(<<LStruct(<<LK(1)>>), LArr(<<LK(2)>>)>>)>>, 0),
    Case("clone", Ops(<<"DUP", "VALUES", "SWAP", "PUSH1", "PICKITEM", "PUSH9", "APPEND">>), <<LMap(<<LK(1)>>, <<LStruct(<<LK(1)>>)>>)>>, 0),
    Case("clone", Ops(<<"NEWMAP", "DUP", "PUSH0", "PUSH3", "PICK", "SETITEM", "SWAP", "PUSH9", "APPEND">>), <<LStruct(<<LK(1)>>)>>, 0),
    Case("clone", Ops(<<"DUP", "PUSH1", "PACK", "SWAP", "PUSH9", "APPEND">>), <<LStruct(<<LK(1)>>)>>, 0),                \* PACK does not clone
    Case("clone", <<Op("DUP"), [op |-> "CONVERT", ty |-> TArray], Op("SWAP"), Op("PUSH9"), Op("APPEND")>>, <<LStruct(<<LK(1)>>)>>, 0),
    Case("clone", <<Op("DUP"), [op |-> "CONVERT", ty |-> TStruct], Op("SWAP"), Op("PUSH9"), Op("APPEND")>>, <<LArr(<<LK(1)>>)>>, 0),
    Case("clone", <<Op("DUP"), [op |-> "CONVERT", ty |-> TArray], Op("SWAP"), Op("PUSH9"), Op("APPEND")>>, <<LArr(<<LK(1)>>)>>, 0),
    Case("clone", <<Op("DUP"), [op |-> "CONVERT", ty |-> TBuffer], Op("SWAP"), PI(0), PI(9), Op("SETITEM")>>, <<LBuf(<<1>>)>>, 0),
    Case("clone", <<Op("DUP"), [op |-> "CONVERT", ty |-> TByteString], Op("SWAP"), PI(0), PI(9), Op("SETITEM")>>, <<LBuf(<<1>>)>>, 0),
    \* an array that contains itself
    Case("cycle", Ops(<<"DUP", "DUP", "APPEND", "DUP", "PUSH0", "PICKITEM", "EQUAL">>), <<LArr(<<>>)>>, 0),
    Case("cycle", Ops(<<"DUP", "DUP", "APPEND", "SIZE">>), <<LStruct(<<>>)>>, 0),
    \* PACKMAP with a repeated key, UNPACK order
    Case("packmap", Ops(<<"PUSH3", "PACKMAP", "DUP", "UNPACK">>), <<LK(30), LK(1), LK(20), LK(2), LK(10), LK(1)>>, 0),
    Case("packmap", Ops(<<"PUSH2", "PACKMAP", "KEYS">>), <<LK(20), LB(<<1>>), LK(10), LK(1)>>, 0),
    Case("packmap", Ops(<<"PUSH2", "PACKMAP">>), <<LK(20), LBool(TRUE), LK(10), LK(1)>>, 0),
    Case("packmap", Ops(<<"PUSH1", "PACKMAP">>), <<LK(20), LNull>>, 0),
    Case("packmap", Ops(<<"PUSH1", "PACKMAP">>), <<LK(20), LB([i \in 1..65 |-> i])>>, 0),
    Case("packmap", Ops(<<"PUSH1", "PACKMAP">>), <<LK(20), LBuf(<<1>>)>>, 0) >>

-----------------------------------------------------------------------------
(* control flow *)
CondOps == << "JMPIF", "JMPIFNOT", "JMPIFL", "JMPIFNOTL" >>
FamJmpIf == Prod2(CondOps, Mixed, LAMBDA o, x, i, j : Case("jmpif", <<J(o, 2), Op("PUSH1"), Op("PUSH2")>>, <<x>>, 0))
CmpJmps == << "JMPEQ", "JMPNE", "JMPGT", "JMPGE", "JMPLT", "JMPLE", "JMPEQL", "JMPNEL", "JMPGTL", "JMPGEL", "JMPLTL", "JMPLEL" >>
CmpArgs == << LK(-1), LK(0), LK(1), LI(BI!Sub(P(255), I(1))), LI(BI!Neg(P(255))), LB(<<>>), LB(<<1, 0>>), LB(Repeat(0, 33)), LBool(TRUE), LNull, LBuf(<<1>>) >>
FamJmpCmp == TProd3(CmpJmps, CmpArgs, CmpArgs, LAMBDA o, x, y, i, j, l : Case("jmpcmp", <<J(o, 2), Op("PUSH1"), Op("PUSH2")>>, <<x, y>>, 0), T(10))
FamFlow == <<
    Case("flow", <<J("JMP", 2), Op("PUSH1"), Op("PUSH2")>>, <<>>, 0),
    Case("flow", <<J("JMPL", 2), Op("PUSH1"), Op("PUSH2")>>, <<>>, 0),
    Case("flow", <<J("JMP", 3), Op("PUSH1"), Op("RET"), Op("PUSH2"), J("JMP", -3)>>, <<>>, 0),
    Case("flow", <<J("JMP", 0)>>, <<>>, 0),                                                  \* endless loop: not claimed (fuel)
    Case("flow", <<Op("PUSH3"), Op("DEC"), Op("DUP"), J("JMPIF", -2)>>, <<>>, 0),            \* countdown
    Case("flow", <<Op("PUSH5"), Op("PUSH0"), Op("INC"), Op("OVER"), Op("OVER"), J("JMPGTL", -3), Op("NIP")>>, <<>>, 0),
    Case("flow", <<J("CALL", 3), Op("PUSH1"), Op("RET"), Op("PUSH2"), Op("RET")>>, <<>>, 0),
    Case("flow", <<J("CALLL", 3), Op("PUSH1"), Op("RET"), Op("PUSH2")>>, <<>>, 0),           \* callee runs off the end
    Case("flow", <<J("PUSHA", 4), Op("CALLA"), Op("PUSH1"), Op("RET"), Op("PUSH2"), Op("RET")>>, <<>>, 0),
    Case("flow", <<J("PUSHA", 1), Op("DUP"), Op("EQUAL")>>, <<>>, 0),
    Case("flow", <<J("PUSHA", 1), J("PUSHA", 0), Op("EQUAL")>>, <<>>, 0),                     \* same position: equal
    Case("flow", <<J("PUSHA", 1), J("PUSHA", 1), Op("EQUAL")>>, <<>>, 0),
    Case("flow", <<J("PUSHA", 0), Op("NOT")>>, <<>>, 0),
    Case("flow", <<J("PUSHA", 0), Op("INC")>>, <<>>, 0),
    Case("flow", <<J("PUSHA", 0), Op("SIZE")>>, <<>>, 0),
    Case("flow", <<J("PUSHA", 0), [op |-> "CONVERT", ty |-> TBoolean]>>, <<>>, 0),
    Case("flow", <<J("PUSHA", 0), [op |-> "CONVERT", ty |-> TInteger]>>, <<>>, 0),
    Case("flow", <<J("PUSHA", 0), [op |-> "ISTYPE", ty |-> TPointer]>>, <<>>, 0),
    \* recursion with arguments: sum 1..n
    Case("flow", <<Op("PUSH4"), J("CALL", 2), Op("RET"), [op |-> "INITSLOT", l |-> 0, a |-> 1], Op("LDARG0"), J("JMPIFNOT", 7),
                   Op("LDARG0"), Op("DEC"), J("CALL", -5), Op("LDARG0"), Op("ADD"), Op("RET"), Op("PUSH0"), Op("RET")>>, <<>>, 0),
    \* nested calls three deep, shared evaluation stack
    Case("flow", <<J("CALL", 3), Op("PUSH1"), Op("RET"), J("CALL", 3), Op("PUSH2"), Op("RET"), J("CALL", 3), Op("PUSH3"), Op("RET"), Op("DEPTH"), Op("RET")>>, <<LK(7)>>, 0),
    \* conditional jumps whose target is outside the script but which are not taken
    Case("untaken-jump-out-of-range", <<Op("PUSHF"), J("JMPIF", 100), Op("PUSH1")>>, <<>>, 0),
    Case("untaken-jump-out-of-range", <<Op("PUSHF"), J("JMPIF", -100), Op("PUSH1")>>, <<>>, 0),
    Case("untaken-jump-out-of-range", <<Op("PUSHT"), J("JMPIFNOTL", 100000), Op("PUSH1")>>, <<>>, 0),
    Case("untaken-jump-out-of-range", <<Op("PUSH1"), Op("PUSH2"), J("JMPEQ", -50), Op("PUSH3")>>, <<>>, 0),
    Case("untaken-jump-out-of-range", <<Op("PUSH1"), Op("PUSH2"), J("JMPGTL", 50), Op("PUSH3")>>, <<>>, 0),
    Case("assert", <<Op("ABORT")>>, <<>>, 0) >>
    \o Prod2(<<LBool(TRUE), LBool(FALSE), LNull, LK(0), LK(2), LB(Repeat(0, 33)), LArr(<<>>)>>,
             <<LB(<<104, 105>>), LB(<<>>), LK(65), LNull, LBuf(<<104>>), LArr(<<>>), LBool(TRUE)>>,
             LAMBDA c, msg, i, j : Case("assert", <<Op("ASSERTMSG"), Op("PUSH1")>>, <<c, msg>>, 0))
    \o [i \in 1..Len(Mixed) |-> Case("assert", <<Op("ABORTMSG")>>, <<Mixed[i]>>, 0)]

\* exception handling templates (offsets relative to the instruction)
FamTry == <<
    Case("try", <<TRY(4, 0), Op("PUSH7"), Op("THROW"), J("ENDTRY", 3), Op("PUSH2"), J("ENDTRY", 1), Op("PUSH3")>>, <<>>, 0),
    Case("try", <<TRYL(4, 0), Op("PUSH7"), Op("THROW"), J("ENDTRYL", 3), Op("PUSH2"), J("ENDTRYL", 1), Op("PUSH3")>>, <<>>, 0),
    Case("try", <<TRY(3, 0), Op("PUSH1"), J("ENDTRY", 3), Op("PUSH2"), J("ENDTRY", 1), Op("PUSH3")>>, <<>>, 0),
    Case("try", <<TRY(0, 3), Op("PUSH1"), J("ENDTRY", 3), Op("PUSH2"), Op("ENDFINALLY"), Op("PUSH3")>>, <<>>, 0),
    Case("try", <<TRY(0, 3), Op("PUSH1"), Op("THROW"), Op("PUSH2"), Op("ENDFINALLY"), Op("PUSH3")>>, <<>>, 0),
    Case("try", <<TRY(4, 6), Op("PUSH1"), Op("THROW"), J("ENDTRY", 5), Op("PUSH2"), J("ENDTRY", 3), Op("PUSH3"), Op("ENDFINALLY"), Op("PUSH4")>>, <<>>, 0),
    Case("try", <<TRY(4, 6), Op("PUSH1"), Op("NOP"), J("ENDTRY", 5), Op("PUSH2"), J("ENDTRY", 3), Op("PUSH3"), Op("ENDFINALLY"), Op("PUSH4")>>, <<>>, 0),
    \* throw inside catch: finally runs, then unhandled
    Case("try", <<TRY(4, 6), Op("PUSH1"), Op("THROW"), J("ENDTRY", 5), Op("THROW"), J("ENDTRY", 3), Op("PUSH3"), Op("ENDFINALLY"), Op("PUSH4")>>, <<>>, 0),
    \* throw inside catch, caught by an outer try
    Case("try", <<TRY(9, 0), TRY(4, 0), Op("PUSH1"), Op("THROW"), J("ENDTRY", 4), Op("PUSH5"), Op("THROW"), J("ENDTRY", 1), J("ENDTRY", 3),
                  Op("PUSH6"), J("ENDTRY", 1), Op("DEPTH")>>, <<>>, 0),
    \* inner finally, outer catch
    Case("try", <<TRY(7, 0), TRY(0, 3), Op("PUSH1"), Op("THROW"), Op("PUSH2"), Op("ENDFINALLY"), J("ENDTRY", 3), Op("PUSH3"), J("ENDTRY", 1), Op("PUSH4")>>, <<>>, 0),
    \* a throw in finally replaces the pending exception
    Case("try", <<TRY(8, 0), TRY(0, 3), Op("PUSH1"), Op("THROW"), Op("PUSH2"), Op("THROW"), Op("ENDFINALLY"), J("ENDTRY", 3), Op("NOP"), J("ENDTRY", 1), Op("PUSH4")>>, <<>>, 0),
    \* exception crossing a call; frames above the handler are dropped, the evaluation stack is kept
    Case("try", <<TRY(4, 0), J("CALL", 6), J("ENDTRY", 4), Op("NOP"), Op("PUSH2"), J("ENDTRY", 1), Op("RET"), Op("PUSH9"), Op("PUSH1"), Op("THROW")>>, <<>>, 0),
    Case("try", <<TRY(4, 0), J("CALL", 6), J("ENDTRY", 4), Op("NOP"), Op("PUSH2"), J("ENDTRY", 1), Op("RET"),
                  J("CALL", 2), Op("RET"), TRY(0, 3), Op("PUSH1"), Op("THROW"), Op("PUSH8"), Op("ENDFINALLY")>>, <<>>, 0),
    \* callee's own try context is gone after its RET
    Case("try", <<J("CALL", 4), Op("PUSH1"), Op("THROW"), Op("RET"), TRY(2, 0), Op("RET"), Op("PUSH5"), Op("RET")>>, <<>>, 0),
    \* engine-raised catchable exceptions (message text not compared)
    Case("tryvm", <<TRY(6, 0), Op("NEWARRAY0"), Op("PUSH0"), Op("PICKITEM"), J("ENDTRY", 4), Op("NOP"), Op("DROP"), Op("PUSH2"), J("ENDTRY", 1), Op("PUSH3")>>, <<>>, 0),
    Case("tryvm", <<TRY(6, 0), Op("NEWMAP"), Op("PUSH0"), Op("PICKITEM"), J("ENDTRY", 4), Op("NOP"), Op("DROP"), Op("PUSH2"), J("ENDTRY", 1), Op("PUSH3")>>, <<>>, 0),
    Case("tryvm", <<TRY(6, 0), PD(<<1>>), Op("PUSH1"), Op("PICKITEM"), J("ENDTRY", 4), Op("NOP"), Op("ISNULL"), Op("PUSH2"), J("ENDTRY", 1), Op("PUSH3")>>, <<>>, 0),
    Case("tryvm", <<TRY(7, 0), Op("NEWARRAY0"), Op("PUSHM1"), Op("PUSH5"), Op("SETITEM"), J("ENDTRY", 4), Op("NOP"), Op("DROP"), Op("PUSH2"), J("ENDTRY", 1), Op("DEPTH")>>, <<>>, 0),
    Case("tryvm", <<TRY(8, 0), Op("PUSH1"), Op("NEWBUFFER"), Op("PUSH1"), Op("PUSHNULL"), Op("SETITEM"), J("ENDTRY", 4), Op("NOP"), [op |-> "ISTYPE", ty |-> TByteString], J("ENDTRY", 1), Op("DEPTH")>>, <<>>, 0),
    Case("tryvm", <<Op("NEWARRAY0"), Op("PUSH0"), Op("PICKITEM")>>, <<>>, 0),
    \* not catchable
    Case("tryvm", <<TRY(6, 0), Op("NEWARRAY0"), Op("PUSH0"), Op("REMOVE"), J("ENDTRY", 4), Op("NOP"), Op("DROP"), Op("PUSH2"), J("ENDTRY", 1), Op("PUSH3")>>, <<>>, 0),
    Case("tryvm", <<TRY(5, 0), Op("PUSH1"), Op("PUSH0"), Op("DIV"), J("ENDTRY", 3), Op("DROP"), J("ENDTRY", 1), Op("PUSH3")>>, <<>>, 0),
    Case("tryvm", <<TRY(4, 0), Op("PUSHF"), Op("ASSERT"), J("ENDTRY", 3), Op("DROP"), J("ENDTRY", 1), Op("PUSH3")>>, <<>>, 0),
    Case("tryvm", <<TRY(3, 0), Op("ABORT"), J("ENDTRY", 3), Op("DROP"), J("ENDTRY", 1), Op("PUSH3")>>, <<>>, 0),
    Case("tryvm", <<TRY(4, 0), Op("PUSHNULL"), Op("INC"), J("ENDTRY", 3), Op("DROP"), J("ENDTRY", 1), Op("PUSH3")>>, <<>>, 0),
    \* ill-formed uses
    Case("try", <<TRY(0, 3), Op("PUSH1"), J("ENDTRY", 3), J("ENDTRY", 2), Op("ENDFINALLY"), Op("PUSH2")>>, <<>>, 0),      \* ENDTRY inside finally
    Case("try", <<J("ENDTRY", 1), Op("PUSH1")>>, <<>>, 0),
    Case("try", <<TRY(0, 0), Op("PUSH1")>>, <<>>, 0),
    Case("try", <<TRY(2, 0), Op("ENDFINALLY"), Op("PUSH1")>>, <<>>, 0),                                                  \* ENDFINALLY in the try body
    Case("try", <<TRY(2, 2), J("ENDTRY", 1), Op("PUSH1")>>, <<>>, 0),
    \* finally entered through ENDTRY jumps to the ENDTRY target afterwards, a second ENDTRY in catch as well
    Case("try", <<TRY(0, 4), Op("PUSH1"), J("ENDTRY", 4), Op("PUSH9"), Op("PUSH2"), Op("ENDFINALLY"), Op("PUSH3"), Op("RET")>>, <<>>, 0),
    \* quirks: ENDFINALLY executed outside a finally block while an exception is pending
    Case("tryquirk", <<TRY(8, 0), TRY(0, 3), Op("PUSH1"), Op("THROW"), J("CALL", 7), Op("ENDFINALLY"), J("ENDTRY", 3), Op("NOP"), Op("PUSH3"), J("ENDTRY", 1), Op("RET"), Op("ENDFINALLY")>>, <<>>, 0),
    Case("tryquirk", <<TRY(9, 0), TRY(0, 3), Op("PUSH1"), Op("THROW"), TRY(5, 0), Op("ENDFINALLY"), Op("ENDFINALLY"), J("ENDTRY", 3), Op("PUSH7"),
                       Op("PUSH3"), J("ENDTRY", 1), Op("RET")>>, <<>>, 0) >>
    \o [k \in 1..3 |-> Case("try", [i \in 1..(14 + k) |-> TRY(1, 0)] \o <<Op("PUSH1")>>, <<>>, 0)]                     \* nesting depth 15, 16, 17
    \o [i \in 1..Len(Mixed) |-> Case("try", <<TRY(3, 0), Op("THROW"), J("ENDTRY", 2), J("ENDTRY", 1), Op("DEPTH")>>, <<Mixed[i]>>, 0)]
    \o [i \in 1..Len(Mixed) |-> Case("try", <<Op("THROW")>>, <<Mixed[i]>>, 0)]

-----------------------------------------------------------------------------
(* exhaustive short sequences over a reduced opcode set *)
SeqOps == << Op("PUSH2"), Op("PUSHM1"), [op |-> "PUSHINT256", b |-> PadBytes(BI!Sub(P(255), I(1)), 32)], PD(<<255>>),
             Op("DUP"), Op("SWAP"), Op("DROP"), Op("ADD"), Op("SUB"), Op("MUL"), Op("DIV"), Op("MOD"), Op("SHL"), Op("SHR"),
             Op("NEGATE"), Op("INVERT"), Op("NOT"), Op("EQUAL"), Op("LT"), Op("CAT"), Op("SIZE"), [op |-> "CONVERT", ty |-> TInteger] >>
SeqInits == << <<LK(3), LK(-7)>>, <<LI(BI!Neg(P(255))), LK(1)>>, <<LB(<<0, 1>>), LI(BI!Sub(P(127), I(1)))>> >>
NS == Len(SeqOps)
Pw(n) == IF n = 1 THEN NS ELSE IF n = 2 THEN NS * NS ELSE NS * NS * NS
SeqOf(k, n) == [p \in 1..n |-> SeqOps[(((k - 1) \div (IF p = n THEN 1 ELSE IF p = n - 1 THEN NS ELSE NS * NS)) % NS) + 1]]
FamSeqN(n, thin) == LET ks == Picked(Pw(n) * Len(SeqInits), thin) IN
                    [p \in 1..Len(ks) |-> LET k == ks[p] IN
                         Case("seq", SeqOf(((k - 1) \div Len(SeqInits)) + 1, n), SeqInits[((k - 1) % Len(SeqInits)) + 1], 0)]
FamSeq == FamSeqN(1, 1) \o FamSeqN(2, T(20)) \o FamSeqN(3, IF SeqLen >= 3 THEN 1 ELSE (3 * Thin) \div 2)

-----------------------------------------------------------------------------
(* operand aliasing: Integer items are values - an instruction that computes on a COPY of a stack item (DUP / OVER / PICK
   share the item in the implementation) must leave the other copies as they were.  Exhaustive in every tier. *)
AliasInts == << I(0), I(1), I(-1), I(2), I(9), I(-7), I(10), P(63), BI!Sub(P(255), I(1)), BI!Neg(P(255)), RndBig(3, 5, FALSE) >>
AliasInts2 == << I(0), I(1), I(-3), I(16), P(127), BI!Neg(P(255)) >>
AliasInts3 == << I(0), I(2), I(-5), I(7), P(64) >>
FamAliasUn == Prod2(<<"INVERT", "SIGN", "ABS", "NEGATE", "INC", "DEC", "SQRT", "NZ", "NOT">>, IntLits(AliasInts),
                    LAMBDA o, x, i, j : Case("alias", <<Op("DUP"), Op(o)>>, <<x>>, 0))
FamAliasBin == Prod3(BinOps \o <<"SHL", "SHR", "POW">>, IntLits(AliasInts2), IntLits(AliasInts2),
                    LAMBDA o, x, y, i, j, l : Case("alias", <<Op("OVER"), Op("OVER"), Op(o)>>, <<x, y>>, 0))
FamAliasTri == Prod4(<<"MODMUL", "MODPOW", "WITHIN">>, IntLits(AliasInts3), IntLits(AliasInts3), IntLits(AliasInts3),
                    LAMBDA o, x, y, z, h, i, j, l : Case("alias", <<Op("PUSH2"), Op("PICK"), Op("PUSH2"), Op("PICK"), Op("PUSH2"), Op("PICK"), Op(o)>>,
                                                         <<x, y, z>>, 0))
FamAlias == FamAliasUn \o FamAliasBin \o FamAliasTri

(* byte strings are values too: an instruction that builds a Buffer out of byte string / buffer operands gives a NEW item;
   writing into it (SETITEM, REVERSEITEMS) must leave the operands' other copies - and a literal of the script - as they
   were.  Operands include the empty string on either side (where nothing needs copying).  Exhaustive in every tier. *)
AliasStrs == << LB(<<97, 98, 99>>), LBuf(<<97, 98, 99>>), LB(<<>>), LBuf(<<>>), LB(<<1>>) >>
WriteInto == << <<Op("DUP"), Op("PUSH0"), Op("PUSH16"), Op("SETITEM")>>, <<Op("DUP"), Op("REVERSEITEMS")>> >>
FamAliasStr ==
    Prod3(AliasStrs, AliasStrs, WriteInto, LAMBDA x, y, w, i, j, l : Case("aliasstr", <<Op("OVER"), Op("OVER"), Op("CAT")>> \o w, <<x, y>>, 0))
    \o Prod3(<<"LEFT", "RIGHT">>, AliasStrs, WriteInto, LAMBDA o, x, w, i, j, l : Case("aliasstr", <<Op("DUP"), Op("DUP"), Op("SIZE"), Op(o)>> \o w, <<x>>, 0))
    \o Prod2(AliasStrs, WriteInto, LAMBDA x, w, i, j : Case("aliasstr", <<Op("DUP"), Op("PUSH0"), Op("OVER"), Op("SIZE"), Op("SUBSTR")>> \o w, <<x>>, 0))
    \o Prod2(AliasStrs, WriteInto, LAMBDA x, w, i, j : Case("aliasstr", <<Op("DUP"), [op |-> "CONVERT", ty |-> TBuffer]>> \o w, <<x>>, 0))
    \o Prod2(WriteInto, <<1, 2>>, LAMBDA w, k, i, j :      \* the operand is a literal of the script, pushed twice
              Case("aliasstr", <<[op |-> "PUSHDATA1", b |-> <<97, 98, 99>>], [op |-> "PUSHDATA1", b |-> <<>>]>> \o (IF k = 1 THEN <<>> ELSE <<Op("SWAP")>>)
                               \o <<Op("CAT")>> \o w \o <<[op |-> "PUSHDATA1", b |-> <<97, 98, 99>>]>>, <<>>, 0))

(* a map after REMOVE: every keyed access to the entries that stay (those inserted after the removed one move up) *)
M3 == LMap(<<LK(1), LK(2), LK(3)>>, <<LK(11), LK(12), LK(13)>>)
M3s == LMap(<<LB(<<107>>), LK(2), LBool(TRUE), LB(<<1, 0>>)>>, <<LK(11), LK(12), LK(13), LK(14)>>)
ThenOps == << <<Op("PICKITEM")>>, <<Op("HASKEY")>>, <<Op("PUSH9"), Op("SETITEM"), Op("DUP"), Op("VALUES")>>, <<Op("REMOVE"), Op("DUP"), Op("KEYS")>> >>
FamRemoveThen ==
    Prod3(<<LK(1), LK(2), LK(3)>>, <<LK(1), LK(2), LK(3), LK(4)>>, ThenOps, LAMBDA k1, k2, t, i, j, l :
          Case("removethen", <<Op("PUSH2"), Op("PICK"), Op("PUSH2"), Op("PICK"), Op("REMOVE"), Op("PUSH2"), Op("PICK"), Op("SWAP")>> \o t, <<M3, k1, k2>>, 0))
    \o Prod3(<<LB(<<107>>), LK(2), LBool(TRUE), LB(<<1, 0>>)>>, <<LB(<<107>>), LK(2), LBool(TRUE), LB(<<1, 0>>)>>, ThenOps, LAMBDA k1, k2, t, i, j, l :
          Case("removethen", <<Op("PUSH2"), Op("PICK"), Op("PUSH2"), Op("PICK"), Op("REMOVE"), Op("PUSH2"), Op("PICK"), Op("SWAP")>> \o t, <<M3s, k1, k2>>, 0))

AllCases == FamAlias \o FamAliasStr \o FamRemoveThen \o FamUn \o FamBin \o FamBinMixed \o FamBinStr \o FamShift \o FamPow \o FamTri \o FamModPow \o FamModPowBig \o FamTriMixed \o FamConv
            \o FamNewArrayT \o FamPushInt \o FamConst \o FamPushData \o FamStack0 \o FamStackN \o FamSlot
            \o FamNewBuffer \o FamCat \o FamSubstr \o FamLeftRight \o FamSpliceLong \o FamMemCpy
            \o FamKeyed \o FamRemove \o FamSetItem \o FamAppend \o FamMutate \o FamIdentity
            \o FamJmpIf \o FamJmpCmp \o FamFlow \o FamTry \o FamSeq
=============================================================================
