------------------------------- MODULE VMOut -------------------------------
(* Output projection shared by the enumeration (VMEnum) and simulation (VMSim) specifications. *)
EXTENDS VMLit, Json

\* ---- output projection: long byte strings are replaced by length, ends and a sampled checksum
RECURSIVE CkRec(_, _, _)
CkRec(s, k, acc) == IF k > 127 THEN acc
                    ELSE CkRec(s, k + 1, (acc + s[1 + (k * (Len(s) - 1)) \div 127] * (k + 1)) % 65521)
Proj(s) == [len |-> Len(s), head |-> SubSeq(s, 1, 16), tail |-> SubSeq(s, Len(s) - 15, Len(s)), ck |-> CkRec(s, 0, 0)]
OutV(v) == IF v.t = "ByteString" /\ Len(v.s) > 64 THEN [t |-> "ByteString", long |-> Proj(v.s)] ELSE v
OutSeq(s) == [i \in 1..Len(s) |-> OutV(s[i])]
OutObj(o) == CASE o.k = "Buffer" -> (IF Len(o.s) > 64 THEN [k |-> "Buffer", long |-> Proj(o.s)] ELSE o)
               [] o.k = "Map" -> [k |-> "Map", keys |-> OutSeq(o.keys), vals |-> OutSeq(o.vals)]
               [] OTHER -> [k |-> o.k, items |-> OutSeq(o.items)]

\* values of a finished machine are well formed: integers within 256 bits, strings within the item size, references valid
WfV(heap, v) == CASE v.t = "Integer" -> BI!Fits256(v.n)
                  [] v.t = "ByteString" -> Len(v.s) <= MaxItemSize
                  [] v.t \in {"Buffer", "Array", "Struct", "Map"} -> v.r \in 1..Len(heap) /\ heap[v.r].k = v.t
                  [] OTHER -> TRUE
WfObj(heap, o) == CASE o.k = "Buffer" -> Len(o.s) <= MaxItemSize
                    [] o.k = "Map" -> Len(o.keys) = Len(o.vals) /\ \A i \in 1..Len(o.keys) : ValidKey(o.keys[i]) /\ WfV(heap, o.vals[i])
                    [] OTHER -> \A i \in 1..Len(o.items) : WfV(heap, o.items[i])
WellFormed(m) == /\ m.st \in {"HALT", "FAULT", "SKIP"}
                 /\ m.st = "HALT" => /\ \A i \in 1..Len(m.stack) : WfV(m.heap, m.stack[i])
                                     /\ \A i \in 1..Len(m.heap) : WfObj(m.heap, m.heap[i])
                                     /\ m.frames = <<>>

OutCase(c, m) == [fam |-> c.fam, prog |-> c.prog, init |-> c.init, st |-> m.st, opq |-> m.opq, quirk |-> m.quirk,
                  stack |-> IF m.st = "HALT" THEN OutSeq(m.stack) ELSE <<>>,
                  heap |-> IF m.st = "HALT" THEN [i \in 1..Len(m.heap) |-> OutObj(m.heap[i])] ELSE <<>>]
=============================================================================
