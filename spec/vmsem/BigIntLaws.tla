------------------------------- MODULE BigIntLaws -------------------------------
(* Model-level self-check of the oracle's arithmetic (spec/common/BigInt.tla): algebraic laws that tie the
   operators to each other are checked by TLC on every pair of a boundary set (values around 2^15k limb
   borders, 2^31, 2^63, 2^127, 2^255, 2^256, seeded random ones).  One state per pair.
   BugFloorDiv is the named deviation (division rounding towards minus infinity instead of zero): with it the
   same laws must fail (non-vacuity of this stage). *)
EXTENDS Integers, Sequences, TLC
BI == INSTANCE BigInt

CONSTANTS Seed, BugFloorDiv
VARIABLES i, j

I(k) == BI!FromInt(k)
P(n) == BI!Pow2(n)
Rnd(k, limbs, neg) == BI!Mk(neg, [x \in 1..limbs |-> IF x = limbs THEN 1 + (((Seed % 10007) * 7919 + k * 104729 + x * 1543) % 32767)
                                                     ELSE ((Seed % 10007) * 15013 + k * 31337 + x * 7717) % 32768])
Vals == << I(0), I(1), I(-1), I(2), I(-3), I(255), I(-256), I(32767), I(32768), I(-32769), I(2147483647), I(-2147483647 - 1),
           BI!Sub(P(63), I(1)), BI!Neg(P(63)), P(127), BI!Sub(P(255), I(1)), BI!Neg(P(255)), P(255), BI!Sub(P(256), I(1)),
           BI!Neg(BI!Add(P(255), I(1))), Rnd(1, 3, FALSE), Rnd(2, 9, TRUE), Rnd(3, 17, FALSE), Rnd(4, 18, TRUE) >>
N == Len(Vals)

QR(a, b) == IF ~BugFloorDiv THEN BI!DivModTrunc(a, b)
            ELSE LET t == BI!DivModTrunc(a, b)
                 IN IF BI!IsZero(t.r) \/ (t.r.neg = b.neg) THEN t
                    ELSE [q |-> BI!Sub(t.q, BI!One), r |-> BI!Add(t.r, b)]

MinusOneV == I(-1)
Shifts == <<0, 1, 14, 15, 16, 100, 256>>
Laws(a, b) ==
    /\ BI!Eq(BI!Sub(BI!Add(a, b), b), a)
    /\ BI!Eq(BI!Add(a, b), BI!Add(b, a))
    /\ BI!Cmp(a, b) = 0 - BI!Cmp(b, a)
    /\ BI!Cmp(a, b) = BI!Sign(BI!Sub(a, b))
    /\ BI!Eq(BI!Mul(a, b), BI!Mul(b, a))
    /\ BI!IsZero(b) \/ LET qr == QR(a, b) IN
          /\ BI!Eq(BI!Add(BI!Mul(qr.q, b), qr.r), a)                       \* a = q*b + r
          /\ BI!Lt(BI!Abs(qr.r), BI!Abs(b))                                 \* |r| < |b|
          /\ BI!IsZero(qr.r) \/ qr.r.neg = a.neg                            \* the remainder has the sign of the dividend
          /\ BI!Eq(BI!Quo(BI!Mul(a, b), b), a) /\ BI!IsZero(BI!Rem(BI!Mul(a, b), b))
          /\ \A e \in {0, 1, 2, 5} : BI!Eq(BI!ModPow(a, I(e), b), BI!Rem(BI!Pow(a, e), b))
          /\ BI!Eq(BI!ModMul(a, a, b), BI!Rem(BI!Mul(a, a), b))
    /\ \A k \in 1..Len(Shifts) : LET n == Shifts[k] IN
          /\ BI!Eq(BI!Shr(BI!Shl(a, n), n), a)
          /\ BI!Eq(BI!Shl(a, n), BI!Mul(a, P(n)))
          /\ LET f == BI!Shl(BI!Shr(a, n), n) IN BI!Le(f, a) /\ BI!Lt(a, BI!Add(f, P(n)))     \* floor
    /\ LET bs == BI!ToBytesLE(a) IN
          /\ BI!Eq(BI!FromBytesLE(bs), a)
          /\ Len(bs) = BI!ByteLen(a)
          /\ BI!Eq(BI!FromBytesLE(bs \o <<IF a.neg THEN 255 ELSE 0>>), a)
          /\ (Len(bs) <= 1 \/ ~BI!Eq(BI!FromBytesLE(SubSeq(bs, 1, Len(bs) - 1)), a))         \* minimal
    /\ BI!Eq(BI!BNot(BI!BNot(a)), a)
    /\ BI!Eq(BI!Add(BI!BAnd(a, b), BI!BOr(a, b)), BI!Add(a, b))
    /\ BI!Eq(BI!BXor(a, b), BI!Sub(BI!BOr(a, b), BI!BAnd(a, b)))
    /\ BI!Eq(BI!BAnd(a, a), a) /\ BI!Eq(BI!BOr(a, a), a) /\ BI!IsZero(BI!BXor(a, a))
    /\ BI!Eq(BI!BNot(BI!BAnd(a, b)), BI!BOr(BI!BNot(a), BI!BNot(b)))
    /\ BI!Eq(BI!BAnd(a, MinusOneV), a)
    /\ LET s == BI!Sqrt(BI!Abs(a)) IN BI!Le(BI!Mul(s, s), BI!Abs(a)) /\ BI!Lt(BI!Abs(a), BI!Mul(BI!Add(s, BI!One), BI!Add(s, BI!One)))
    /\ BI!Eq(BI!Pow(a, 3), BI!Mul(a, BI!Mul(a, a))) /\ BI!Eq(BI!Pow(a, 0), BI!One) /\ BI!Eq(BI!Pow(a, 1), a)
    /\ (BI!Sign(a) <= 0 \/ BI!Lt(b, I(2))) \/ LET r == BI!ModInverse(a, b) IN
          ~r.ok \/ (BI!Eq(BI!Rem(BI!Mul(a, r.inv), b), BI!One) /\ ~r.inv.neg /\ BI!Lt(r.inv, b))
    /\ BI!Fits256(a) = (BI!Le(BI!Neg(P(255)), a) /\ BI!Lt(a, P(255)))
    /\ BI!FitsInt32(a) = (BI!Le(I(-2147483647 - 1), a) /\ BI!Le(a, I(2147483647)))
    /\ BI!FitsInt32(a) /\ ~BI!IsMinInt32(a) => BI!Eq(I(BI!ToInt(a)), a)

Init == i \in 1..N /\ j = 0
Next == j = 0 /\ j' \in 1..N /\ UNCHANGED i
LawsHold == j = 0 \/ Laws(Vals[i], Vals[j])
=============================================================================
