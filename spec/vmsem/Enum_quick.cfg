\* quick tier: thinned products (Thin = 56), exhaustive sequences up to length 2 (length 3 sampled); Seed is replaced per run
INIT Init
NEXT Next
CONSTANTS
  Seed = 1
  Thin = 56
  SeqLen = 2
  Chunks = 64
INVARIANT WfOk
CHECK_DEADLOCK FALSE
