INIT Init
NEXT Next
CONSTANTS
  Seed = 1
  Thin = 12
  SeqLen = 2
  Chunks = 64
CHECK_DEADLOCK FALSE
