------------------------------- MODULE VMSim -------------------------------
(* Behaviour generator for longer instruction sequences (tlc -simulate): a straight-line program grows by one
   instruction per step and the specification executes it as it grows; when the depth bound is reached
   (or the machine has stopped) the case (program, initial stack) |-> outcome is printed after @@HIST@@. *)
EXTENDS VMOut

CONSTANT Depth
VARIABLES m, init

Imm256(n) == [op |-> "PUSHINT256", b |-> PadBytes(n, 32)]
SimOps == << Op("PUSH0"), Op("PUSH1"), Op("PUSH2"), Op("PUSH3"), Op("PUSHM1"), Op("PUSH16"), Imm256(BI!Sub(P(255), I(1))), Imm256(BI!Neg(P(255))),
             [op |-> "PUSHINT64", b |-> PadBytes(BI!Sub(P(63), I(1)), 8)], [op |-> "PUSHINT128", b |-> PadBytes(BI!Neg(P(127)), 16)],
             [op |-> "PUSHDATA1", b |-> <<1, 2>>], [op |-> "PUSHDATA1", b |-> Repeat(255, 32)], [op |-> "PUSHDATA1", b |-> <<>>],
             Op("PUSHNULL"), Op("PUSHT"), Op("NEWARRAY0"), Op("NEWSTRUCT0"), Op("NEWMAP"),
             Op("DUP"), Op("SWAP"), Op("OVER"), Op("ROT"), Op("DROP"), Op("NIP"), Op("TUCK"), Op("DEPTH"), Op("PICK"), Op("REVERSE3"),
             Op("ADD"), Op("SUB"), Op("MUL"), Op("DIV"), Op("MOD"), Op("NEGATE"), Op("ABS"), Op("INC"), Op("DEC"), Op("SIGN"),
             Op("SHL"), Op("SHR"), Op("AND"), Op("OR"), Op("XOR"), Op("INVERT"), Op("SQRT"), Op("POW"), Op("MIN"), Op("MAX"),
             Op("NOT"), Op("BOOLAND"), Op("BOOLOR"), Op("NZ"), Op("NUMEQUAL"), Op("EQUAL"), Op("NOTEQUAL"), Op("LT"), Op("GE"), Op("WITHIN"), Op("MODMUL"),
             Op("CAT"), Op("SIZE"), Op("LEFT"), Op("RIGHT"), Op("SUBSTR"), Op("ISNULL"),
             [op |-> "CONVERT", ty |-> TInteger], [op |-> "CONVERT", ty |-> TByteString], [op |-> "CONVERT", ty |-> TBuffer], [op |-> "CONVERT", ty |-> TBoolean],
             [op |-> "CONVERT", ty |-> TStruct], [op |-> "ISTYPE", ty |-> TInteger],
             Op("APPEND"), Op("PICKITEM"), Op("SETITEM"), Op("PACK"), Op("PACKSTRUCT"), Op("UNPACK"), Op("REVERSEITEMS"), Op("HASKEY"), Op("VALUES"),
             Op("POPITEM"), Op("REMOVE"), Op("CLEARITEMS"), Op("KEYS"), Op("PACKMAP") >>
SimInits == << <<LK(5), LK(-3)>>, <<LI(BI!Sub(P(255), I(1))), LK(2), LK(1)>>, <<LB(<<1, 0>>), LArr(<<LK(1), LK(2)>>), LK(0)>>,
               <<LStruct(<<LK(1)>>), LMap(<<LK(1)>>, <<LK(2)>>), LK(1)>> >>

SimInit == \E i \in 1..Len(SimInits) : init = SimInits[i] /\ m = LoadCase([prog |-> <<>>, init |-> SimInits[i]])
EmitCase(mm) == PrintT(<<"@@HIST@@", ToJson(OutCase([fam |-> "sim", prog |-> mm.prog, init |-> init], Run(mm, 4)))>>)
\* a successor that stops the machine (FAULT) ends the walk (CONSTRAINT Alive): one in three of them is printed here
SimNext == /\ Len(m.prog) < Depth
           /\ \E i \in 1..Len(SimOps) :
                 LET m2 == Step([m EXCEPT !.prog = Append(@, SimOps[i])])
                 IN m' = m2 /\ (m2.st = "RUN" \/ (Len(m.prog) + i) % 3 # 0 \/ EmitCase(m2))
           /\ UNCHANGED init
SimSpec == SimInit /\ [][SimNext]_<<m, init>>
Alive == m.st = "RUN"
\* running programs are printed (completed by the implicit RET) half way and at the depth bound
Emit == m.st # "RUN" \/ (Len(m.prog) # Depth /\ Len(m.prog) # Depth \div 2) \/ EmitCase(m)
=============================================================================
