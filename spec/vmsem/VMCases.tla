------------------------------- MODULE VMCases -------------------------------
(* The input space on which TLC evaluates the executable specification VMSem (C13):
   opcode x boundary-operand tuples per instruction family, hand-shaped control-flow / exception
   templates, and short instruction sequences (exhaustive over a reduced opcode set).
   A case is [fam, prog, init]: program (decoded instructions) and initial stack literals (bottom first).
   The big products are thinned by a factor derived from Thin (T(d)); which tuples are kept moves with Seed
   (Sel).  Seeded pseudo-random operands extend the boundary sets. *)
EXTENDS VMLit

CONSTANTS Thin,      \* thinning of the big products (1 = exhaustive product)
          SeqLen     \* maximal length of the exhaustive instruction sequences (2 or 3)

-----------------------------------------------------------------------------
(* operands *)
\* seeded pseudo-random big integer of at most 15*limbs bits (never the forbidden trailing zero limb)
RndBig(k, limbs, neg) ==
    BI!Mk(neg, [i \in 1..limbs |-> IF i = limbs THEN 1 + (((Seed % 10007) * 7919 + k * 104729 + i * 1543) % 32767)
                                   ELSE ((Seed % 10007) * 15013 + k * 31337 + i * 7717) % 32768])

\* the boundary set of the property statement that fits an Integer item ...
IntsCore == << I(0), I(1), I(-1), I(2), I(-2),
               BI!Sub(P(63), I(1)), P(63), BI!Add(P(63), I(1)), BI!Neg(P(63)), BI!Sub(BI!Neg(P(63)), I(1)),
               P(127), BI!Neg(P(127)), BI!Sub(P(255), I(1)), BI!Neg(P(255)) >>
\* ... the int32 / byte cast boundaries, values whose sums, products, squares and shifts cross 2^255 ...
IntsMore == << I(3), I(-3), I(7), I(-7), I(10), I(127), I(128), I(-128), I(-129), I(255), I(256),
               I(2147483647), BI!Add(I(2147483647), I(1)), I(-2147483647 - 1), BI!Sub(I(-2147483647 - 1), I(1)),
               P(64), BI!Sub(P(128), I(1)), P(128), BI!Neg(P(128)), P(254), BI!Neg(P(254)), BI!Sub(P(254), I(1)),
               BI!Sub(P(255), I(2)), BI!Add(BI!Neg(P(255)), I(1)),
               BI!Sqrt(BI!Sub(P(255), I(1))), BI!Add(BI!Sqrt(BI!Sub(P(255), I(1))), I(1)) >>
\* ... and seeded random ones of several sizes
IntsRnd == << RndBig(1, 1, FALSE), RndBig(2, 2, TRUE), RndBig(3, 5, FALSE), RndBig(4, 9, TRUE), RndBig(5, 9, FALSE),
              RndBig(6, 17, FALSE), RndBig(7, 17, TRUE), RndBig(8, 13, FALSE) >>
Ints == IntsCore \o IntsMore \o IntsRnd
IntLits(s) == [i \in 1..Len(s) |-> LI(s[i])]

\* byte strings: empty, non-minimal encodings, 32-byte negative numbers, 33-byte strings (the statement's
\* 2^255, -2^255-1, 2^256-1 exist only in this form), key-size and comparison-size boundaries
Bytes32(last) == [i \in 1..32 |-> IF i = 32 THEN last ELSE 0]
ShortStrs == << <<>>, <<0>>, <<1>>, <<128>>, <<255>>, <<0, 0>>, <<1, 0>>, <<255, 255>>, <<104, 105>>,
                Repeat(255, 32), Bytes32(128), [i \in 1..32 |-> IF i = 32 THEN 127 ELSE 255], Bytes32(1), Repeat(0, 32),
                Bytes32(128) \o <<0>>, [i \in 1..33 |-> IF i = 33 THEN 255 ELSE IF i = 32 THEN 127 ELSE 255],
                Repeat(255, 32) \o <<0>>, Repeat(0, 33), Repeat(255, 33),
                [i \in 1..64 |-> i], [i \in 1..65 |-> i] >>
StrLits == [i \in 1..Len(ShortStrs) |-> LB(ShortStrs[i])]
LongGen(n) == [t |-> "ByteString", gen |-> <<n, 7, Seed % 251>>]
LongStrs == << LongGen(65535), LongGen(65536), LongGen(65537), LongGen(131069), LongGen(131070) >>
LongBufs == << [t |-> "Buffer", gen |-> <<65535, 3, 1>>], [t |-> "Buffer", gen |-> <<131070, 5, 2>>] >>

\* a map large enough for any accidental dependence on hash-map iteration order to show
BigMap == LMap([i \in 1..12 |-> LK(7 * i - 20)], [i \in 1..12 |-> IF i % 4 = 0 THEN LStruct(<<LK(i)>>) ELSE LK(100 + i)])
\* items of every other type
Others == << LNull, LBool(TRUE), LBool(FALSE), LBuf(<<>>), LBuf(<<1>>), LBuf(<<0, 0>>), LBuf(Repeat(255, 32)), LBuf(Repeat(1, 33)),
             LArr(<<>>), LArr(<<LK(1), LK(2), LK(3)>>), LStruct(<<>>), LStruct(<<LK(1), LB(<<2>>)>>),
             LMap(<<>>, <<>>), LMap(<<LK(1), LB(<<107>>), LBool(TRUE)>>, <<LK(10), LK(20), LNull>>), BigMap >>
\* a short list with one representative of every kind (for the big products)
Mixed == << LK(0), LK(1), LK(-1), LI(BI!Sub(P(255), I(1))), LI(BI!Neg(P(255))), LB(<<>>), LB(<<1>>), LB(<<0, 0>>), LB(Repeat(255, 32)),
            LB(Bytes32(128)), LB(Repeat(0, 33)), LNull, LBool(TRUE), LBool(FALSE), LBuf(<<1>>), LArr(<<>>), LStruct(<<LK(1)>>),
            LMap(<<>>, <<>>) >>
AllOperands == IntLits(Ints) \o StrLits \o Others

-----------------------------------------------------------------------------
(* product helpers; the generator gets the elements and their indices *)
Case(fam, prog, init, h) == [fam |-> fam, prog |-> prog, init |-> init]
Prod2(X, Y, F(_, _, _, _)) ==
    [k \in 1..(Len(X) * Len(Y)) |-> LET i == ((k - 1) \div Len(Y)) + 1  j == ((k - 1) % Len(Y)) + 1 IN F(X[i], Y[j], i, j)]
Prod3(X, Y, Z, F(_, _, _, _, _, _)) ==
    [k \in 1..(Len(X) * Len(Y) * Len(Z)) |->
        LET i == ((k - 1) \div (Len(Y) * Len(Z))) + 1  j == (((k - 1) \div Len(Z)) % Len(Y)) + 1  l == ((k - 1) % Len(Z)) + 1
        IN F(X[i], Y[j], Z[l], i, j, l)]
Prod4(W, X, Y, Z, F(_, _, _, _, _, _, _, _)) ==
    [k \in 1..(Len(W) * Len(X) * Len(Y) * Len(Z)) |->
        LET yz == Len(Y) * Len(Z)  xyz == Len(X) * yz
            h == ((k - 1) \div xyz) + 1  i == (((k - 1) \div yz) % Len(X)) + 1
            j == (((k - 1) \div Len(Z)) % Len(Y)) + 1  l == ((k - 1) % Len(Z)) + 1
        IN F(W[h], X[i], Y[j], Z[l], h, i, j, l)]
\* thinned products: only the selected index tuples are materialised.  Sel spreads the selection over all
\* dimensions (multiplicative hash modulo a prime, threshold on the value) and moves with Seed.
Sel(k, salt, t) == t = 1 \/ (((k % 10007) * 7919 + (k \div 10007) * 4673 + (salt % 10007) * 3301 + (Seed % 10007) * 1201) % 10007) * t < 10007
T(d) == IF Thin \div d < 1 THEN 1 ELSE Thin \div d        \* family-specific thinning derived from Thin
Picked(n, t) == SelectSeq([k \in 1..n |-> k], LAMBDA k : Sel(k, n, t))
TProd2(X, Y, F(_, _, _, _), t) ==
    LET ks == Picked(Len(X) * Len(Y), t) IN
    [p \in 1..Len(ks) |-> LET k == ks[p]  i == ((k - 1) \div Len(Y)) + 1  j == ((k - 1) % Len(Y)) + 1 IN F(X[i], Y[j], i, j)]
TProd3(X, Y, Z, F(_, _, _, _, _, _), t) ==
    LET ks == Picked(Len(X) * Len(Y) * Len(Z), t) IN
    [p \in 1..Len(ks) |-> LET k == ks[p]
        i == ((k - 1) \div (Len(Y) * Len(Z))) + 1  j == (((k - 1) \div Len(Z)) % Len(Y)) + 1  l == ((k - 1) % Len(Z)) + 1
        IN F(X[i], Y[j], Z[l], i, j, l)]
TProd4(W, X, Y, Z, F(_, _, _, _, _, _, _, _), t) ==
    LET ks == Picked(Len(W) * Len(X) * Len(Y) * Len(Z), t) IN
    [p \in 1..Len(ks) |-> LET k == ks[p]  yz == Len(Y) * Len(Z)  xyz == Len(X) * yz
            h == ((k - 1) \div xyz) + 1  i == (((k - 1) \div yz) % Len(X)) + 1
            j == (((k - 1) \div Len(Z)) % Len(Y)) + 1  l == ((k - 1) % Len(Z)) + 1
        IN F(W[h], X[i], Y[j], Z[l], h, i, j, l)]

-----------------------------------------------------------------------------
(* families *)
UnOps == << "INVERT", "SIGN", "ABS", "NEGATE", "INC", "DEC", "SQRT", "NZ", "NOT", "ISNULL", "SIZE", "DUP", "DROP",
            "NEWBUFFER", "NEWARRAY", "NEWSTRUCT", "KEYS", "VALUES", "UNPACK", "CLEARITEMS", "POPITEM", "REVERSEITEMS",
            "THROW", "ASSERT", "CALLA", "XDROP", "PICK", "ROLL", "REVERSEN", "PACK", "PACKMAP", "PACKSTRUCT" >>
FamUn == TProd2(UnOps, AllOperands, LAMBDA o, x, i, j : Case("un", <<Op(o)>>, <<x>>, 0), T(13))

BinOps == << "ADD", "SUB", "MUL", "DIV", "MOD", "AND", "OR", "XOR", "NUMEQUAL", "NUMNOTEQUAL", "LT", "LE", "GT", "GE",
             "MIN", "MAX", "BOOLAND", "BOOLOR", "EQUAL", "NOTEQUAL" >>
FamBin == TProd3(BinOps, IntLits(Ints), IntLits(Ints),
                        LAMBDA o, x, y, i, j, l : Case("bin", <<Op(o)>>, <<x, y>>, 0), T(1))
\* every kind of item against every kind of item, and integers against byte-string encodings
BinAllOps == BinOps \o << "CAT", "SHL", "SHR", "POW", "PICKITEM", "HASKEY", "APPEND", "REMOVE", "LEFT", "RIGHT", "SWAP", "OVER", "NIP", "TUCK" >>
FamBinMixed == TProd3(BinAllOps, Mixed, Mixed,
                        LAMBDA o, x, y, i, j, l : Case("binmixed", <<Op(o)>>, <<x, y>>, 0), T(4))
FamBinStr == TProd3(<<"ADD", "NUMEQUAL", "EQUAL", "LT", "AND", "BOOLAND", "CAT", "MIN">>, StrLits, IntLits(IntsCore) \o StrLits,
                        LAMBDA o, x, y, i, j, l : Case("binstr", <<Op(o)>>, <<x, y>>, 0), T(4))

ShiftCounts == IntLits(<< I(0), I(1), I(2), I(7), I(8), I(15), I(16), I(254), I(255), I(256), I(257), I(-1), I(2147483647),
                          BI!Add(I(2147483647), I(1)), P(63), BI!Neg(P(255)) >>) \o << LNull, LB(<<>>), LB(<<1, 0>>), LBool(TRUE), LBuf(<<1>>) >>
FamShift == TProd3(<<"SHL", "SHR">>, IntLits(Ints) \o <<LB(<<>>), LB(Repeat(255, 32)), LB(Repeat(0, 33)), LNull, LBool(TRUE), LArr(<<>>), LBuf(<<1>>)>>,
                          ShiftCounts, LAMBDA o, x, y, i, j, l : Case("shift", <<Op(o)>>, <<x, y>>, 0), T(8))

PowExps == IntLits(<< I(0), I(1), I(2), I(3), I(4), I(5), I(8), I(15), I(16), I(17), I(31), I(32), I(63), I(64), I(85), I(127), I(128),
                      I(254), I(255), I(256), I(257), I(-1), I(2147483647), P(63) >>) \o <<LNull, LB(<<2>>)>>
FamPow == TProd2(IntLits(Ints) \o <<LB(<<3>>), LBool(TRUE), LNull>>, PowExps,
                        LAMBDA x, y, i, j : Case("pow", <<Op("POW")>>, <<x, y>>, 0), T(8))

\* three-operand numeric instructions over a reduced boundary set
Ints3 == << I(0), I(1), I(-1), I(2), I(-2), I(3), I(7), I(-7), I(10), P(63), BI!Neg(P(127)), BI!Sub(P(255), I(1)), BI!Neg(P(255)),
            BI!Sub(P(128), I(1)), RndBig(11, 17, FALSE), RndBig(12, 17, TRUE), RndBig(13, 9, FALSE), RndBig(14, 4, TRUE) >>
FamTri == TProd4(<<"MODMUL", "WITHIN">>, IntLits(Ints3), IntLits(Ints3), IntLits(Ints3),
                        LAMBDA o, x, y, z, h, i, j, l : Case("tri", <<Op(o)>>, <<x, y, z>>, 0), T(1))
\* MODPOW: small exponents (-2 .. 5) and modular inverses, every sign combination ...
SmallInts == << I(0), I(1), I(-1), I(2), I(-2), I(3), I(-3), I(4), I(5), I(-5), I(6), I(7), I(-7), I(12), I(35), I(-36) >>
FamModPow == TProd3(IntLits(SmallInts \o <<P(63), BI!Neg(P(255)), RndBig(15, 17, TRUE)>>),
                           IntLits(<< I(-2), I(-1), I(0), I(1), I(2), I(3), I(4), I(5) >>) \o <<LNull>>,
                           IntLits(SmallInts \o <<BI!Sub(P(255), I(1)), BI!Neg(P(255)), RndBig(16, 17, FALSE)>>) \o <<LB(<<>>)>>,
                           LAMBDA x, y, z, i, j, l : Case("modpow", <<Op("MODPOW")>>, <<x, y, z>>, 0), T(2))
\* ... and full-size exponents (seconds each in TLC: few)
FamModPowBig == TProd3(IntLits(<< I(3), I(-3), RndBig(17, 17, FALSE), BI!Neg(P(255)), BI!Sub(P(255), I(1)) >>),
                              IntLits(<< P(64), BI!Sub(P(255), I(1)), BI!Sub(P(255), I(2)), RndBig(18, 17, FALSE) >>),
                              IntLits(<< I(7), I(-7), I(1), I(-1), I(0), BI!Sub(P(255), I(1)), BI!Neg(P(255)), RndBig(19, 17, FALSE) >>),
                              LAMBDA x, y, z, i, j, l : Case("modpowbig", <<Op("MODPOW")>>, <<x, y, z>>, 0), T(4))
FamTriMixed == TProd4(<<"MODMUL", "WITHIN", "MODPOW", "SUBSTR", "SETITEM", "ROT", "REVERSE3">>, Mixed, Mixed, Mixed,
                        LAMBDA o, x, y, z, h, i, j, l : Case("trimixed", <<Op(o)>>, <<x, y, z>>, 0), 2 * Thin)

\* types: every type byte of the enumeration, and undefined ones
TypeBytes == << 0, 16, 32, 33, 40, 48, 64, 65, 72, 96, 1, 34, 153, 255 >>
FamConv == TProd3(<<"CONVERT", "ISTYPE">>, TypeBytes, AllOperands,
                 LAMBDA o, ty, x, i, j, l : Case("conv", <<[op |-> o, ty |-> ty]>>, <<x>>, 0), T(13))
FamNewArrayT == Prod2(TypeBytes, IntLits(<<I(0), I(1), I(3), I(-1), I(2048), I(2049), P(63)>>) \o <<LNull, LB(<<2>>), LBool(TRUE)>>,
                      LAMBDA ty, x, i, j : Case("newarrayt", <<[op |-> "NEWARRAYT", ty |-> ty], Op("DUP"), Op("SIZE")>>, <<x>>, 0))

\* constants
PushIntName == [w \in {1, 2, 4, 8, 16, 32} |-> CASE w = 1 -> "PUSHINT8" [] w = 2 -> "PUSHINT16" [] w = 4 -> "PUSHINT32"
                                                 [] w = 8 -> "PUSHINT64" [] w = 16 -> "PUSHINT128" [] w = 32 -> "PUSHINT256"]
FamPushInt == SelectSeq(Prod2(<<1, 2, 4, 8, 16, 32>>, Ints,
                              LAMBDA w, n, i, j : Case(IF FitW(n, w) THEN "pushint" ELSE "none", <<[op |-> PushIntName[w], b |-> IF FitW(n, w) THEN PadBytes(n, w) ELSE <<>>]>>, <<>>, 0)),
                        LAMBDA c : c.fam = "pushint")
ConstNames == << "PUSHM1", "PUSH0", "PUSH1", "PUSH2", "PUSH3", "PUSH4", "PUSH5", "PUSH6", "PUSH7", "PUSH8", "PUSH9", "PUSH10",
                 "PUSH11", "PUSH12", "PUSH13", "PUSH14", "PUSH15", "PUSH16", "PUSHT", "PUSHF", "PUSHNULL", "NEWARRAY0",
                 "NEWSTRUCT0", "NEWMAP", "NOP", "DEPTH", "CLEAR", "RET", "ABORT", "ENDFINALLY", "ABORTMSG" >>
FamConst == [i \in 1..Len(ConstNames) |-> Case("const", <<Op(ConstNames[i])>>, <<LK(5)>>, 0)]
FamPushData == << Case("pushdata", <<[op |-> "PUSHDATA1", b |-> <<>>]>>, <<>>, 0),
                  Case("pushdata", <<[op |-> "PUSHDATA1", b |-> [i \in 1..255 |-> i]]>>, <<>>, 0),
                  Case("pushdata", <<[op |-> "PUSHDATA2", b |-> <<1, 2, 3>>]>>, <<>>, 0),
                  Case("pushdata", <<[op |-> "PUSHDATA2", gen |-> <<65535, 3, 4>>], Op("DUP"), Op("EQUAL")>>, <<>>, 0),
                  Case("pushdata", <<[op |-> "PUSHDATA4", b |-> <<9>>], Op("DUP"), Op("EQUAL")>>, <<>>, 0),
                  Case("pushdata", <<[op |-> "PUSHDATA4", gen |-> <<65537, 3, 4>>], Op("DUP"), Op("EQUAL")>>, <<>>, 0),
                  Case("pushdata", <<[op |-> "PUSHDATA4", gen |-> <<131070, 3, 4>>], Op("SIZE")>>, <<>>, 0),
                  Case("pushdata", <<[op |-> "PUSHDATA4", gen |-> <<131070, 3, 4>>]>>, <<>>, 0) >>

\* stack manipulation on stacks of 0..5 distinct items
StackOf(n) == [i \in 1..n |-> LK(10 + i)]
Counts == << I(-1), I(0), I(1), I(2), I(3), I(4), I(5), I(6), I(2147483647), BI!Add(I(2147483647), I(1)), BI!Neg(P(63)) >>
FamStack0 == Prod2(<<"DEPTH", "DROP", "NIP", "CLEAR", "DUP", "OVER", "TUCK", "SWAP", "ROT", "REVERSE3", "REVERSE4">>, <<0, 1, 2, 3, 4, 5>>,
                   LAMBDA o, n, i, j : Case("stack", <<Op(o)>>, StackOf(n), 0))
FamStackN == TProd3(<<"XDROP", "PICK", "ROLL", "REVERSEN", "PACK", "PACKSTRUCT", "PACKMAP">>, <<0, 1, 2, 3, 4, 5>>, IntLits(Counts) \o <<LNull, LB(<<2>>), LBool(TRUE), LB(Repeat(0, 33))>>,
                   LAMBDA o, n, c, i, j, l : Case("stackn", <<Op(o)>>, StackOf(n) \o <<c>>, 0), T(20))

\* slots
SlotIdx == << 0, 1, 2, 6, 7, 255 >>
FamSlot ==
    Prod3(<<0, 1, 2, 7, 255>>, SlotIdx, SlotIdx, LAMBDA n, i, j, a, b, c :
          Case("slot", <<[op |-> "INITSSLOT", n |-> n], [op |-> "STSFLD", i |-> i], [op |-> "LDSFLD", i |-> j], [op |-> "LDSFLD", i |-> i]>>, <<LK(1), LK(2)>>, 0))
    \o Prod3(<<0, 1, 3>>, <<0, 1, 3>>, <<0, 1, 2, 3>>, LAMBDA l, a, i, x, y, z :
          Case("slot", <<[op |-> "INITSLOT", l |-> l, a |-> a], [op |-> "LDARG", i |-> i], [op |-> "STLOC", i |-> i], [op |-> "LDLOC", i |-> 0],
                         [op |-> "LDARG", i |-> 0], [op |-> "STARG", i |-> i], [op |-> "LDARG", i |-> i]>>, <<LK(1), LK(2), LK(3)>>, 0))
    \o [k \in 1..7 |-> LET i == k - 1 IN
           Case("slot", <<[op |-> "INITSSLOT", n |-> 7], [op |-> "INITSLOT", l |-> 7, a |-> 7],
                          Op("PUSH" \o ToString(i + 1)), Op("STSFLD" \o ToString(i)), Op("PUSH" \o ToString(i + 2)), Op("STLOC" \o ToString(i)),
                          Op("PUSH" \o ToString(i + 3)), Op("STARG" \o ToString(6 - i)),
                          Op("LDSFLD" \o ToString(i)), Op("LDLOC" \o ToString(i)), Op("LDARG" \o ToString(i)), Op("LDARG" \o ToString(6 - i)),
                          Op("LDSFLD" \o ToString(6 - i))>>, StackOf(7), 0)]
    \o << Case("slot", <<[op |-> "INITSSLOT", n |-> 1], [op |-> "INITSSLOT", n |-> 1]>>, <<>>, 0),
          Case("slot", <<[op |-> "INITSLOT", l |-> 1, a |-> 0], [op |-> "INITSLOT", l |-> 0, a |-> 1]>>, <<LK(1)>>, 0),
          Case("slot", <<[op |-> "INITSLOT", l |-> 0, a |-> 1], [op |-> "INITSLOT", l |-> 1, a |-> 0]>>, <<LK(1)>>, 0),
          Case("slot", <<[op |-> "LDSFLD", i |-> 0]>>, <<>>, 0), Case("slot", <<[op |-> "STLOC", i |-> 0]>>, <<LK(1)>>, 0),
          Case("slot", <<[op |-> "LDARG", i |-> 0]>>, <<>>, 0),
          \* locals are per call frame, static fields are shared
          Case("slot", <<[op |-> "INITSSLOT", n |-> 1], [op |-> "INITSLOT", l |-> 1, a |-> 0], Op("PUSH1"), Op("STLOC0"), [op |-> "CALL", off |-> 4],
                         Op("LDLOC0"), Op("LDSFLD0"), Op("RET"),
                         [op |-> "INITSLOT", l |-> 1, a |-> 0], Op("PUSH2"), Op("STLOC0"), Op("PUSH3"), Op("STSFLD0"), Op("LDLOC0"), Op("RET")>>, <<>>, 0) >>
=============================================================================
