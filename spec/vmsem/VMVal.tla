------------------------------- MODULE VMVal -------------------------------
(* NeoVM stack items, their conversion and equality rules (C13).

   Written from the NeoVM reference semantics (neo-vm, C#: Types/*.cs) - NOT from pkg/vm/stackitem.
   Integers are unbounded (BigInt.tla); the 256-bit range check is explicit (Fits256) wherever the
   reference constructs an Integer item.

   Values (records; field t is the NeoVM type name):
     [t |-> "Integer",    n |-> big]            [t |-> "Boolean", b |-> BOOLEAN]
     [t |-> "ByteString", s |-> bytes]          [t |-> "Null"]
     [t |-> "Pointer",    p |-> instruction index (1-based)]
     [t |-> "Buffer" | "Array" | "Struct" | "Map", r |-> heap reference]
   Heap objects (reference types; identity matters for EQUAL and for aliasing):
     [k |-> "Buffer", s |-> bytes]   [k |-> "Array" | "Struct", items |-> Seq(value)]
     [k |-> "Map", keys |-> Seq(value), vals |-> Seq(value)]     (insertion ordered)
   A ByteString that carries the text of a VM-generated catchable exception has the extra field
   opq |-> TRUE: its content is implementation specific and is not compared. *)
EXTENDS Integers, Sequences
BI == INSTANCE BigInt

MaxItemSize == 131070        \* ushort.MaxValue * 2
MaxIntBytes == 32
MaxKeySize  == 64
MaxCmpSize  == 65536         \* MaxComparableSize
MaxShift    == 256
MaxTryDepth == 16
MaxStackSize == 2048

TAny == 0  TPointer == 16  TBoolean == 32  TInteger == 33  TByteString == 40
TBuffer == 48  TArray == 64  TStruct == 65  TMap == 72  TInterop == 96
ValidTypes == {TAny, TPointer, TBoolean, TInteger, TByteString, TBuffer, TArray, TStruct, TMap, TInterop}

IntV(n)   == [t |-> "Integer", n |-> n]
BoolV(b)  == [t |-> "Boolean", b |-> b]
BytesV(s) == [t |-> "ByteString", s |-> s]
OpaqueV   == [t |-> "ByteString", s |-> <<>>, opq |-> TRUE]
NullV     == [t |-> "Null"]
PtrV(p)   == [t |-> "Pointer", p |-> p]
RefV(t, r) == [t |-> t, r |-> r]
NatV(k)   == IntV(BI!FromInt(k))

TypeCode(v) == CASE v.t = "Integer" -> TInteger [] v.t = "Boolean" -> TBoolean
                 [] v.t = "ByteString" -> TByteString [] v.t = "Null" -> TAny
                 [] v.t = "Pointer" -> TPointer [] v.t = "Buffer" -> TBuffer
                 [] v.t = "Array" -> TArray [] v.t = "Struct" -> TStruct [] v.t = "Map" -> TMap

IsPrimitive(v) == v.t \in {"Integer", "Boolean", "ByteString"}
IsCompound(v)  == v.t \in {"Array", "Struct", "Map"}
IsArrayLike(v) == v.t \in {"Array", "Struct"}

AnyNonZero(s) == \E i \in 1..Len(s) : s[i] # 0

(* conversions: [ok |-> BOOLEAN, v |-> result]; ok = FALSE is an InvalidCastException, i.e. FAULT *)
Bad(d) == [ok |-> FALSE, v |-> d]
Good(x) == [ok |-> TRUE, v |-> x]

\* StackItem.GetInteger: Integer; Boolean 1/0; ByteString of at most 32 bytes as little-endian two's
\* complement (non-minimal encodings allowed); everything else (Buffer included) cannot be cast
IntOf(v) == CASE v.t = "Integer" -> Good(v.n)
              [] v.t = "Boolean" -> Good(IF v.b THEN BI!One ELSE BI!Zero)
              [] v.t = "ByteString" -> IF Len(v.s) <= MaxIntBytes THEN Good(BI!FromBytesLE(v.s)) ELSE Bad(BI!Zero)
              [] OTHER -> Bad(BI!Zero)

\* StackItem.GetBoolean: ByteString longer than 32 bytes cannot be cast; Null is false; Buffer, compound
\* items and pointers are true
BoolOf(v) == CASE v.t = "Boolean" -> Good(v.b)
               [] v.t = "Integer" -> Good(~BI!IsZero(v.n))
               [] v.t = "ByteString" -> IF Len(v.s) <= MaxIntBytes THEN Good(AnyNonZero(v.s)) ELSE Bad(FALSE)
               [] v.t = "Null" -> Good(FALSE)
               [] OTHER -> Good(TRUE)

\* StackItem.GetSpan: ByteString, Buffer, Integer (minimal encoding, zero is empty), Boolean (one byte)
BytesOf(heap, v) == CASE v.t = "ByteString" -> Good(v.s)
                      [] v.t = "Buffer" -> Good(heap[v.r].s)
                      [] v.t = "Integer" -> Good(BI!ToBytesLE(v.n))
                      [] v.t = "Boolean" -> Good(IF v.b THEN <<1>> ELSE <<0>>)
                      [] OTHER -> Bad(<<>>)

\* a native "int" out of an item ((int)x.GetInteger()): ok iff castable and within int32.
\* -2^31 is reported as -2147483647 (callers only ever test such values for negativity).
Int32Of(v) == LET i == IntOf(v)
              IN IF ~i.ok \/ ~BI!FitsInt32(i.v) THEN Bad(0)
                 ELSE IF BI!IsMinInt32(i.v) THEN Good(-2147483647) ELSE Good(BI!ToInt(i.v))

(* map keys: PrimitiveType, at most MaxKeySize bytes; keys are equal iff same type and same value *)
KeySize(v) == CASE v.t = "Integer" -> BI!ByteLen(v.n) [] v.t = "Boolean" -> 1 [] v.t = "ByteString" -> Len(v.s)
ValidKey(v) == IsPrimitive(v) /\ KeySize(v) <= MaxKeySize
KeyEq(a, b) == /\ a.t = b.t
               /\ CASE a.t = "Integer" -> BI!Eq(a.n, b.n) [] a.t = "Boolean" -> a.b = b.b [] a.t = "ByteString" -> a.s = b.s
\* index of key k in a key sequence, 0 if absent
KeyIndex(keys, k) == IF \E i \in 1..Len(keys) : KeyEq(keys[i], k)
                     THEN CHOOSE i \in 1..Len(keys) : KeyEq(keys[i], k) ELSE 0

(* StackItem.Equals(other, limits): [ok, v]; ok = FALSE when a comparison limit is exceeded (FAULT).
   x is the receiver (second from the top for EQUAL), y the argument. *)
RECURSIVE StructEq(_, _, _)
ItemEq(heap, x, y) ==
    CASE x.t = "Integer" -> Good(y.t = "Integer" /\ BI!Eq(x.n, y.n))
      [] x.t = "Boolean" -> Good(y.t = "Boolean" /\ x.b = y.b)
      [] x.t = "Null"    -> Good(y.t = "Null")
      [] x.t = "Pointer" -> Good(y.t = "Pointer" /\ x.p = y.p)
      [] x.t = "ByteString" ->
            IF Len(x.s) > MaxCmpSize THEN Bad(FALSE)
            ELSE IF y.t # "ByteString" THEN Good(FALSE)
            ELSE IF Len(y.s) > MaxCmpSize THEN Bad(FALSE)
            ELSE Good(x.s = y.s)
      [] x.t \in {"Buffer", "Array", "Map"} -> Good(y.t = x.t /\ y.r = x.r)       \* reference equality
      [] x.t = "Struct" -> IF y.t # "Struct" THEN Good(FALSE) ELSE StructEq(heap, <<<<x, y>>>>, 0)

\* Struct.Equals: structural, over a work list of pairs (the reference uses two explicit stacks);
\* n counts compared elements (MaxStackSize of them at most).  Small structs only in this project's
\* cases, so the size/count limits are modelled for the count only.
StructEq(heap, work, n) ==
    IF work = <<>> THEN Good(TRUE)
    ELSE LET a == work[1][1]  b == work[1][2]  rest == SubSeq(work, 2, Len(work))
         IN IF n > MaxStackSize THEN Bad(FALSE)
            ELSE IF a.t = "Struct" /\ b.t = "Struct"
            THEN IF a.r = b.r THEN StructEq(heap, rest, n + 1)
                 ELSE LET ia == heap[a.r].items  ib == heap[b.r].items
                      IN IF Len(ia) # Len(ib) THEN Good(FALSE)
                         ELSE StructEq(heap, [i \in 1..Len(ia) |-> <<ia[i], ib[i]>>] \o rest, n + 1)
            ELSE LET e == ItemEq(heap, a, b)
                 IN IF ~e.ok THEN e ELSE IF ~e.v THEN Good(FALSE) ELSE StructEq(heap, rest, n + 1)

(* heap *)
Alloc(heap, obj) == [heap |-> Append(heap, obj), r |-> Len(heap) + 1]

\* Struct.Clone: nested structs are copied, everything else is shared.  Returns [heap, r].
RECURSIVE CloneStruct(_, _)
RECURSIVE CloneItems(_, _, _, _)
CloneItems(heap, items, i, acc) ==
    IF i > Len(items) THEN [heap |-> heap, items |-> acc]
    ELSE IF items[i].t = "Struct"
         THEN LET c == CloneStruct(heap, items[i].r)
              IN CloneItems(c.heap, items, i + 1, Append(acc, RefV("Struct", c.r)))
         ELSE CloneItems(heap, items, i + 1, Append(acc, items[i]))
CloneStruct(heap, r) ==
    LET c == CloneItems(heap, heap[r].items, 1, <<>>)
    IN Alloc(c.heap, [k |-> "Struct", items |-> c.items])

\* the item stored by APPEND / SETITEM / VALUES: a struct is stored as a clone
Stored(heap, v) == IF v.t = "Struct" THEN LET c == CloneStruct(heap, v.r) IN [heap |-> c.heap, v |-> RefV("Struct", c.r)]
                   ELSE [heap |-> heap, v |-> v]

Repeat(x, n) == [i \in 1..n |-> x]
Reverse(s) == [i \in 1..Len(s) |-> s[Len(s) + 1 - i]]
RemoveIdx(s, i) == SubSeq(s, 1, i - 1) \o SubSeq(s, i + 1, Len(s))
=============================================================================
