\* exhaustive over all ordered pairs of the 24 boundary values of BigIntLaws!Vals (576 pairs)
INIT Init
NEXT Next
CONSTANTS
  Seed = 1
  BugFloorDiv = FALSE
INVARIANT LawsHold
CHECK_DEADLOCK FALSE
