\* exhaustive small domains: all byte strings of length <= 2; all integers |x| <= 140000 against native arithmetic
SPECIFICATION Spec
CONSTANTS
  MaxBytes = 1
  Small = 140000
  Kinds = {"string", "small"}
  Dev = "none"
INVARIANTS StringOK SmallOK
CHECK_DEADLOCK FALSE
