\* boundary cases +-(2^e + d), e in {8k-1, 8k}, k = 1..34, d in -2..2 (and -3..3): checked against the abstract
\* definition and printed for the harness
SPECIFICATION Spec
CONSTANTS
  MaxBytes = 34
  Small = 0
  Kinds = {"case"}
  Dev = "none"
INVARIANTS CaseOK Emit
CHECK_DEADLOCK FALSE
