---------------------------- MODULE MultisigTrace ----------------------------
(***************************************************************************)
(* Validates what the REAL vm.CheckMultisigPar / System.Crypto.CheckMultisig *)
(* did (code -> spec).  One NDJSON line per run:                           *)
(*   mode      "gated" (results delivered one at a time through the hook   *)
(*             vm.VerifMultisigGate in a chosen order), "free" (Go         *)
(*             scheduler), "interop" (VM script calling the syscall)       *)
(*   n, V      number of keys, validity matrix MEASURED with real          *)
(*             PublicKey.Verify calls on the real keys and signatures      *)
(*   keys      keys[k] = first index holding the same public key (0-based) *)
(*   returned  the call came back (FALSE: every goroutine of the checker   *)
(*             is blocked for ever, or a worker indexes out of range)      *)
(*   answer    the returned boolean                                        *)
(*   sched,obs (gated) delivered directions and, initially and after each  *)
(*             delivery, what is visible at the gate                       *)
(* Judged by the ABSTRACT specification Multisig:                          *)
(*   Terminates   the call returns under this delivery order               *)
(*   Answer       answer = OrderedMatch(V)                                 *)
(* Compared with the implementation-shaped model (drift only, never a      *)
(* violation): drift:ImplObs - the tasks seen at the gate are those        *)
(* MultisigLoop!CReplay predicts for the delivered order.                  *)
(***************************************************************************)
EXTENDS MultisigLoop, TraceIO

VARIABLE l
Init == l = 1

ProjTask(t, keys) == IF t.on THEN [sig |-> t.sig, key |-> keys[t.key + 1], on |-> TRUE]
                             ELSE [sig |-> 0, key |-> 0, on |-> FALSE]
ProjObs(o, keys) == [status |-> o.status, F |-> ProjTask(o.F, keys), B |-> ProjTask(o.B, keys)]
\* the observed records carry the key label already
SeenObs(o) == [status |-> o.status,
               F |-> IF o.F.on THEN [sig |-> o.F.sig, key |-> o.F.key, on |-> TRUE] ELSE [sig |-> 0, key |-> 0, on |-> FALSE],
               B |-> IF o.B.on THEN [sig |-> o.B.sig, key |-> o.B.key, on |-> TRUE] ELSE [sig |-> 0, key |-> 0, on |-> FALSE]]

Predicted(e) ==
    LET cs == CReplay(e.V, CInit(e.V, e.n), e.sched)
    IN [i \in 1..Len(cs) |-> ProjObs(Obs(cs[i]), e.keys)]

Checks(e) ==
    NameIf(e.returned, "Terminates")
    \cup (IF e.returned THEN NameIf(e.answer = OrderedMatch(e.V, e.n), "Answer") ELSE {})
    \cup (IF e.mode = "gated" /\ e.returned /\ Len(e.V) > 1
          THEN NameIf(Predicted(e) = [i \in 1..Len(e.obs) |-> SeenObs(e.obs[i])], "drift:ImplObs")
          ELSE {})

Step ==
    /\ l <= Len(TLog)
    /\ l' = l + 1
    /\ LET e == TLog[l] IN
         Report(l, Checks(e), [mode |-> e.mode, n |-> e.n, m |-> Len(e.V), expect |-> OrderedMatch(e.V, e.n)])

TraceSpec == Init /\ [][Step]_l
=============================================================================
