---------------------------- MODULE MultisigSched ----------------------------
(***************************************************************************)
(* Enumeration of the delivery orders of the parallel multi-signature      *)
(* check, for replay on the real vm.CheckMultisigPar through the gate hook *)
(* (spec -> code).  One behaviour = one validity matrix and one maximal    *)
(* sequence of deliveries under quiescent stepping (MultisigLoop).  Every  *)
(* finished behaviour is printed as a JSON case:                           *)
(*   n, V, sched (directions), obs (the gate-observable projection after   *)
(*   each delivery: tasks in flight, finished?), answer (Impl prediction), *)
(*   expect (the abstract answer OrderedMatch).                            *)
(* TLC also checks here, on the coarse graph, that every maximal sequence  *)
(* ends with the function returned (NotStuck) and the abstract answer.     *)
(***************************************************************************)
EXTENDS MultisigLoop, Json

CONSTANTS MinN, MaxN, MinM, MaxM

VARIABLES n, V, c, sched, obs
vars == <<n, V, c, sched, obs>>

Init == /\ n \in MinN..MaxN
        /\ \E mm \in MinM..(IF n < MaxM THEN n ELSE MaxM) : V \in Matrices(n, mm)
        /\ c = CInit(V, n) /\ sched = <<>> /\ obs = <<Obs(c)>>

Next == \E d \in {"F", "B"} :
           /\ CanDeliver(c, d)
           /\ c' = CDeliver(V, c, d)
           /\ sched' = Append(sched, d)
           /\ obs' = Append(obs, Obs(c'))
           /\ UNCHANGED <<n, V>>

Spec == Init /\ [][Next]_vars

Finished == c.L.status = "done"
NotStuck == Finished \/ CanDeliver(c, "F") \/ CanDeliver(c, "B")
Answer   == Finished => c.L.sigok = OrderedMatch(V, n)

Emit == ~Finished \/ PrintT(<<"@@CASE@@", ToJson([n |-> n, V |-> V, sched |-> sched, obs |-> obs,
                                                 answer |-> c.L.sigok, expect |-> OrderedMatch(V, n)])>>)
=============================================================================
