------------------------------ MODULE ByteInt ------------------------------
(***************************************************************************)
(* A minimal pure-TLA+ big integer for C18 part (c) (TLC integers are 32   *)
(* bits, NeoVM integers 256).  Naturals are little-endian sequences of     *)
(* base-256 digits without trailing zero digit (zero = <<>>); integers are *)
(* sign-magnitude records [neg, mag] (zero is not negative).  Only what    *)
(* the codec specification needs: +, - on naturals, powers of two,         *)
(* conversion from/to small TLC integers.                                  *)
(***************************************************************************)
EXTENDS Integers, Sequences

Byte == 0..255

RECURSIVE Strip(_)
Strip(b) == IF b = <<>> THEN <<>> ELSE IF b[Len(b)] = 0 THEN Strip(SubSeq(b, 1, Len(b) - 1)) ELSE b

Digit(b, i) == IF i <= Len(b) THEN b[i] ELSE 0
MaxLen(a, b) == IF Len(a) > Len(b) THEN Len(a) ELSE Len(b)

\* a + b
RECURSIVE AddFrom(_, _, _, _)
AddFrom(a, b, i, carry) ==
    IF i > MaxLen(a, b) THEN (IF carry = 0 THEN <<>> ELSE <<carry>>)
    ELSE LET s == Digit(a, i) + Digit(b, i) + carry
         IN <<s % 256>> \o AddFrom(a, b, i + 1, s \div 256)
NatAdd(a, b) == Strip(AddFrom(a, b, 1, 0))

\* a - b, defined for a >= b
RECURSIVE SubFrom(_, _, _, _)
SubFrom(a, b, i, borrow) ==
    IF i > Len(a) THEN <<>>
    ELSE LET d == Digit(a, i) - Digit(b, i) - borrow
         IN <<(d + 256) % 256>> \o SubFrom(a, b, i + 1, IF d < 0 THEN 1 ELSE 0)
NatSub(a, b) == Strip(SubFrom(a, b, 1, 0))

\* a < b for normalised naturals
RECURSIVE LessFrom(_, _, _)
LessFrom(a, b, i) == IF i = 0 THEN FALSE
                     ELSE IF a[i] # b[i] THEN a[i] < b[i] ELSE LessFrom(a, b, i - 1)
NatLess(a, b) == IF Len(a) # Len(b) THEN Len(a) < Len(b) ELSE LessFrom(a, b, Len(a))

RECURSIVE Pow2Small(_)
Pow2Small(e) == IF e = 0 THEN 1 ELSE 2 * Pow2Small(e - 1)
NatPow2(e) == [j \in 1..(e \div 8) |-> 0] \o <<Pow2Small(e % 8)>>

RECURSIVE NatFromInt(_)
NatFromInt(x) == IF x = 0 THEN <<>> ELSE <<x % 256>> \o NatFromInt(x \div 256)      \* x >= 0
RECURSIVE NatToInt(_)
NatToInt(b) == IF b = <<>> THEN 0 ELSE b[1] + 256 * NatToInt(Tail(b))             \* small b only

Zero == [neg |-> FALSE, mag |-> <<>>]
MkInt(neg, mag) == LET m == Strip(mag) IN [neg |-> neg /\ m # <<>>, mag |-> m]
FromInt(x) == IF x < 0 THEN MkInt(TRUE, NatFromInt(0 - x)) ELSE MkInt(FALSE, NatFromInt(x))
ToInt(v) == IF v.neg THEN 0 - NatToInt(v.mag) ELSE NatToInt(v.mag)
\* v + d for a small TLC integer d
AddSmall(v, d) ==
    LET dm == NatFromInt(IF d < 0 THEN 0 - d ELSE d)
        dn == d < 0
    IN IF v.neg = dn THEN MkInt(v.neg, NatAdd(v.mag, dm))
       ELSE IF NatLess(v.mag, dm) THEN MkInt(dn, NatSub(dm, v.mag))
       ELSE MkInt(v.neg, NatSub(v.mag, dm))
Negate(v) == MkInt(~v.neg, v.mag)
IsInt(v) == /\ v.mag = Strip(v.mag) /\ (v.neg => v.mag # <<>>) /\ \A j \in 1..Len(v.mag) : v.mag[j] \in Byte
=============================================================================
