\* with the delivery history visible: quiescent replay of the history reproduces the answer (1..3 keys)
SPECIFICATION Spec
CONSTANTS
  MinN = 1
  MaxN = 3
  MaxM = 3
  Universe = "labels"
  Workers = 3
  TaskCap = 2
  Dev = "none"
INVARIANTS TypeOK Answer ReplayAgrees
CHECK_DEADLOCK TRUE
