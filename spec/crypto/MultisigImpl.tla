---------------------------- MODULE MultisigImpl ----------------------------
(***************************************************************************)
(* Implementation-shaped model of vm.CheckMultisigPar (pkg/vm/vm.go):      *)
(* two cursors working from both ends of the key and signature lists,      *)
(* Workers (3) goroutines taking tasks from a channel of capacity TaskCap   *)
(* (2), verification results delivered to the main loop through a buffered *)
(* channel in ANY order.  One action per step of a goroutine:              *)
(*    WorkerTake     a worker receives a task from the task channel        *)
(*    WorkerDeliver  a worker verifies and sends the result (this is where *)
(*                   the hook vm.VerifMultisigGate sits in the real code)  *)
(*    MainRecv       the main loop receives one result and runs the loop   *)
(*                   body up to `continue`, `break` or the channel send    *)
(*    MainSend       the main loop's  tasks <- task  (blocks when full)    *)
(*                                                                         *)
(* TLC checks (MC_Multisig_*.cfg), for every matrix of the configured      *)
(* universe and every interleaving: the answer equals the abstract         *)
(* Multisig!OrderedMatch (Answer), nothing wedges (deadlock check: the     *)
(* task channel of capacity 2 and the result channel never block the loop  *)
(* for ever) and the loop terminates (Termin).                             *)
(* hist records the order of deliveries; ReplayAgrees says that stepping   *)
(* the loop "quiescently" through that order (MultisigLoop!CReplay, what   *)
(* the harness does on the real code) produces the same answer, i.e. the   *)
(* gate hook reaches every behaviour of the main loop.                     *)
(***************************************************************************)
EXTENDS MultisigLoop

CONSTANTS MinN, MaxN,   \* number of public keys
          MaxM,         \* number of signatures 1..min(n, MaxM)
          Workers, TaskCap

VARIABLES n, V,                          \* the input: number of keys, validity matrix
          k1, k2, s1, s2, taskCount, sigok,   \* the locals of CheckMultisigPar
          pc,                            \* "recv" | "send" | "done"
          pend,                          \* the task the main loop is about to send (pc = "send")
          tasksQ, working, resultsQ,     \* task channel, tasks held by workers, result channel
          hist                           \* history: directions in the order their results were delivered

vars  == <<n, V, k1, k2, s1, s2, taskCount, sigok, pc, pend, tasksQ, working, resultsQ, hist>>
NoHist == <<n, V, k1, k2, s1, s2, taskCount, sigok, pc, pend, tasksQ, working, resultsQ>>   \* VIEW

M == NSig(V)
Valid(s, k) == V[s + 1][k + 1]           \* 0-based view used by the code-shaped part

Locals == [k1 |-> k1, k2 |-> k2, s1 |-> s1, s2 |-> s2, taskCount |-> taskCount, sigok |-> sigok,
           status |-> pc, pend |-> pend]

Init ==
    /\ n \in MinN..MaxN
    /\ \E mm \in 1..(IF n < MaxM THEN n ELSE MaxM) : V \in Matrices(n, mm)
    /\ k1 = 0 /\ k2 = n - 1 /\ s1 = 0 /\ s2 = M - 1
    /\ pend = NoTask /\ working = {} /\ resultsQ = <<>> /\ hist = <<>>
    /\ IF M = 1
       THEN \* the single-signature path of the code: sequential scan of the keys, no workers
            /\ pc = "done" /\ taskCount = 0 /\ tasksQ = <<>>
            /\ sigok = \E k \in 1..n : V[1][k]
       ELSE /\ pc = "recv" /\ taskCount = 2 /\ sigok = TRUE
            /\ tasksQ = <<Task("F", 0, 0), Task("B", M - 1, n - 1)>>

WorkerTake ==
    /\ pc # "done" /\ tasksQ # <<>> /\ Cardinality(working) < Workers
    /\ working' = working \cup {Head(tasksQ)}
    /\ tasksQ' = Tail(tasksQ)
    /\ UNCHANGED <<n, V, k1, k2, s1, s2, taskCount, sigok, pc, pend, resultsQ, hist>>

WorkerDeliver(t) ==
    /\ pc # "done" /\ t \in working
    /\ Len(resultsQ) < M                       \* capacity of the results channel = len(sigs)
    /\ working' = working \ {t}
    /\ resultsQ' = Append(resultsQ, [signum |-> t.sig, ok |-> Valid(t.sig, t.key)])
    /\ hist' = Append(hist, t.dir)
    /\ UNCHANGED <<n, V, k1, k2, s1, s2, taskCount, sigok, pc, pend, tasksQ>>

MainRecv ==
    /\ pc = "recv" /\ resultsQ # <<>>
    /\ LET L == LoopBody(Locals, Head(resultsQ)) IN
       /\ k1' = L.k1 /\ k2' = L.k2 /\ s1' = L.s1 /\ s2' = L.s2
       /\ taskCount' = L.taskCount /\ sigok' = L.sigok /\ pc' = L.status /\ pend' = L.pend
    /\ resultsQ' = Tail(resultsQ)
    /\ UNCHANGED <<n, V, tasksQ, working, hist>>

MainSend ==
    /\ pc = "send" /\ Len(tasksQ) < TaskCap
    /\ tasksQ' = Append(tasksQ, pend)
    /\ pend' = NoTask /\ pc' = "recv"
    /\ UNCHANGED <<n, V, k1, k2, s1, s2, taskCount, sigok, working, resultsQ, hist>>

Step == WorkerTake \/ MainRecv \/ MainSend \/ \E t \in working : WorkerDeliver(t)
Done == pc = "done" /\ UNCHANGED vars           \* the function has returned
Next == Step \/ Done
Spec == Init /\ [][Next]_vars /\ WF_vars(Step)

(* ---------------------------------------------------------------- what TLC checks *)
TypeOK ==
    /\ pc \in {"recv", "send", "done"}
    /\ taskCount \in 0..2
    /\ Len(tasksQ) <= TaskCap /\ Cardinality(working) <= Workers /\ Len(resultsQ) <= M

\* the judge: the returned value is the abstract answer, whatever the schedule
Answer == pc = "done" => sigok = OrderedMatch(V, n)

\* the three formulations of the abstract answer agree on every matrix explored (evaluated once per matrix,
\* in the initial state)
AbstractAgree == hist = <<>> /\ working = {} =>
                    /\ OrderedMatch(V, n) = OrderedMatchDecl(V, n)
                    /\ OrderedMatch(V, n) = Sequential(V, n)

\* bookkeeping of the real loop: taskCount is the number of tasks/results on their way, the two cursors
\* never cross, array indices stay in range (an index panic in a worker goroutine would kill the node)
InFlight == Len(tasksQ) + Cardinality(working) + Len(resultsQ) + (IF pc = "send" THEN 1 ELSE 0)
Cursors ==
    pc # "done" /\ M > 1 =>
        /\ taskCount = InFlight
        /\ 0 <= k1 /\ k1 < k2 /\ k2 <= n - 1
        /\ 0 <= s1 /\ s1 < s2 /\ s2 <= M - 1
        /\ \A t \in working \cup {tasksQ[i] : i \in 1..Len(tasksQ)} \cup (IF pc = "send" THEN {pend} ELSE {}) :
              /\ t.sig \in 0..(M - 1) /\ t.key \in 0..(n - 1)
              /\ (t.dir = "F" => t.sig = s1 /\ t.key = k1)
              /\ (t.dir = "B" => t.sig = s2 /\ t.key = k2)

\* quiescent stepping through the recorded delivery order reproduces the run (justifies the harness)
ReplayAgrees ==
    pc = "done" =>
        LET cs == CReplay(V, CInit(V, n), hist)
            c  == cs[Len(cs)]
        IN c.L.status = "done" /\ c.L.sigok = sigok

Termin == <>(pc = "done")
=============================================================================
