\* non-vacuity self-test: deviation NoSignByte must be caught
SPECIFICATION Spec
CONSTANTS
  MaxBytes = 2
  Small = 300
  Kinds = {"case", "string", "small"}
  Dev = "NoSignByte"
INVARIANTS CaseOK StringOK SmallOK
CHECK_DEADLOCK FALSE
