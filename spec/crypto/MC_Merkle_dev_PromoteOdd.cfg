\* non-vacuity self-test: deviation PromoteOdd must be caught
SPECIFICATION Spec
CONSTANTS
  MaxLen = 9
  Dev = "PromoteOdd"
INVARIANTS ImplIsAbstract Emit
CHECK_DEADLOCK FALSE
