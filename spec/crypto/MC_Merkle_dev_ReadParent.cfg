\* non-vacuity self-test: deviation ReadParent must be caught
SPECIFICATION Spec
CONSTANTS
  MaxLen = 9
  Dev = "ReadParent"
INVARIANTS ImplIsAbstract Emit
CHECK_DEADLOCK FALSE
