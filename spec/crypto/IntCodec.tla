------------------------------ MODULE IntCodec ------------------------------
(***************************************************************************)
(* C18 part (c): "VM big integers decode back to exactly what was encoded, *)
(* VM integers always in minimal two's-complement little-endian form"      *)
(* (pkg/encoding/bigint: ToBytes, ToPreallocatedBytes, FromBytes).         *)
(*                                                                         *)
(* ABSTRACT (the judge):                                                   *)
(*   Value(b)      the integer a byte string denotes: sum b[i]*256^(i-1),  *)
(*                 minus 256^Len(b) when the top bit of the last byte is   *)
(*                 set; the empty string denotes 0.  Defined with natural  *)
(*                 number arithmetic (ByteInt), no bit tricks.             *)
(*   IsMinimal(b)  no shorter string denotes the same integer: the last    *)
(*                 byte is not a redundant sign extension (0 is empty).    *)
(*   IsEnc(x, b)   b is THE encoding of x: Value(b) = x /\ IsMinimal(b).   *)
(* CONSTRUCTIVE: Enc(x) builds the encoding by complementing digits; TLC   *)
(* checks IsEnc(x, Enc(x)) on every enumerated case, and on the exhaustive *)
(* small domains: every byte string of length <= 2 (Minimal <=> fixed      *)
(* point of Enc o Value) and every integer |x| <= Small against a third    *)
(* definition in native TLC arithmetic (NativeEnc).                        *)
(* Cases (x, Enc(x)) are printed for the harness: boundary values          *)
(* +-(2^e + d), e in {8k-1, 8k}, k = 1..MaxBytes, d in -2..2.              *)
(***************************************************************************)
EXTENDS ByteInt, TLC, Json

(* ---------------------------------------------------------------- abstract *)
TopSet(b) == b # <<>> /\ b[Len(b)] >= 128

Value(b) == IF ~TopSet(b) THEN MkInt(FALSE, b)
            ELSE MkInt(TRUE, NatSub(NatPow2(8 * Len(b)), Strip(b)))

IsMinimal(b) ==
    \/ b = <<>>
    \/ /\ ~(b[Len(b)] = 0   /\ (Len(b) = 1 \/ b[Len(b) - 1] < 128))
       /\ ~(b[Len(b)] = 255 /\ Len(b) >= 2 /\ b[Len(b) - 1] >= 128)

IsEnc(x, b) == Value(b) = x /\ IsMinimal(b)

(* ---------------------------------------------------------------- constructive *)
Complement(b) == [j \in 1..Len(b) |-> 255 - b[j]]
Enc(x) ==
    IF x.mag = <<>> THEN <<>>
    ELSE IF ~x.neg THEN (IF x.mag[Len(x.mag)] >= 128 THEN x.mag \o <<0>> ELSE x.mag)
    ELSE \* -m  =  not(m - 1)  over the digits of m
         LET t == Complement([j \in 1..Len(x.mag) |-> Digit(NatSub(x.mag, <<1>>), j)])
         IN IF t[Len(t)] >= 128 THEN t ELSE t \o <<255>>

\* sign extension by p bytes: a non-minimal string with the same value
Pad(b, neg, p) == b \o [j \in 1..p |-> IF neg THEN 255 ELSE 0]
=============================================================================
