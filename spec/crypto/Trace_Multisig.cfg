SPECIFICATION TraceSpec
CONSTANTS
  Universe = "labels"
  Dev = "none"
POSTCONDITION TraceAccepted
CHECK_DEADLOCK FALSE
