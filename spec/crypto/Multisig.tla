------------------------------ MODULE Multisig ------------------------------
(***************************************************************************)
(* Abstract (property level) specification of the multi-signature check,   *)
(* C18 part (a).  It says what the property statement says and nothing     *)
(* more: "a multi-signature check accepts exactly when the signatures can  *)
(* be matched to keys in order".                                           *)
(*                                                                         *)
(* A validity matrix V is a sequence of m rows (one per signature, in the  *)
(* order given to the check), each row a sequence of n booleans (one per   *)
(* public key, in the order given): V[s][k] <=> signature s verifies under *)
(* key k.  Keys may be repeated (equal columns), signatures may be invalid *)
(* (all-false row) or repeated (equal rows).  Sequences of sequences are   *)
(* used so that a JSON matrix recorded from real PublicKey.Verify calls is *)
(* a value of this shape without conversion.                               *)
(***************************************************************************)
EXTENDS Integers, Sequences, FiniteSets

NSig(V) == Len(V)

(* The declarative definition: there is a strictly increasing assignment of keys to signatures
   under which every signature verifies. *)
OrderedMatchDecl(V, n) ==
    \E f \in [1..NSig(V) -> 1..n] :
        /\ \A s \in 1..NSig(V) : V[s][f[s]]
        /\ \A s \in 1..(NSig(V) - 1) : f[s] < f[s + 1]

(* The same as a recursion (complete search, usable for larger n than the function space above):
   signatures s..m can be matched in order to keys k..n. *)
RECURSIVE MatchFrom(_, _, _, _)
MatchFrom(V, n, s, k) ==
    IF s > NSig(V) THEN TRUE
    ELSE IF k > n THEN FALSE
    ELSE (V[s][k] /\ MatchFrom(V, n, s + 1, k + 1)) \/ MatchFrom(V, n, s, k + 1)

OrderedMatch(V, n) == MatchFrom(V, n, 1, 1)

(* The sequential reference algorithm (one cursor over keys, one over signatures: the neo-vm
   definition of CheckMultisig).  TLC checks Sequential = OrderedMatch = OrderedMatchDecl on every
   matrix of the exhaustive configurations (MultisigImpl!AbstractAgree). *)
RECURSIVE SeqFrom(_, _, _, _)
SeqFrom(V, n, s, k) ==
    IF s > NSig(V) THEN TRUE
    ELSE IF NSig(V) - s > n - k THEN FALSE          \* fewer keys left than signatures
    ELSE IF V[s][k] THEN SeqFrom(V, n, s + 1, k + 1)
    ELSE SeqFrom(V, n, s, k + 1)

Sequential(V, n) == SeqFrom(V, n, 1, 1)

(* A matrix that real ECDSA keys can produce: a signature verifies under at most one key value, so
   two rows are equal or disjoint, i.e. V[s][k] = (sg[s] = key[k]) for labellings key, sg
   (label 0 = invalid signature). *)
FromLabels(key, sg) == [s \in 1..Len(sg) |-> [k \in 1..Len(key) |-> sg[s] # 0 /\ sg[s] = key[k]]]
=============================================================================
