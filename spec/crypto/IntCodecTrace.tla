---------------------------- MODULE IntCodecTrace ----------------------------
(***************************************************************************)
(* Validates the outputs of the REAL integer codec (code -> spec) against  *)
(* the abstract definitions of IntCodec.  One NDJSON line per input:       *)
(*  event "int":  x = [neg, mag] (magnitude little-endian base 256, read   *)
(*      back from the real big.Int after the calls), and                   *)
(*      out   bigint.ToBytes(x)                                            *)
(*      pre   bigint.ToPreallocatedBytes(x, buffer)                        *)
(*      item  stackitem.NewBigInteger(x).Bytes()  (absent beyond 256 bits) *)
(*      back  FromBytes(out) as [neg, mag]                                 *)
(*      same  x compared equal to a copy taken before the calls            *)
(*  event "bytes": b an arbitrary byte string (minimal or not), and        *)
(*      v     FromBytes(b) as [neg, mag]                                   *)
(*      re    ToBytes(FromBytes(b))                                        *)
(*  event "vm": b the operand of a script (PUSHINT* operand, or PUSHDATA + *)
(*      CONVERT Integer), out = bytes of the resulting stack item after    *)
(*      execution by the real VM (only recorded when the VM halts)         *)
(***************************************************************************)
EXTENDS IntCodec, TraceIO

VARIABLE l
Init == l = 1

IntOf(r) == [neg |-> r.neg, mag |-> r.mag]

IntChecks(e) ==
    LET x == IntOf(e.x) IN
    NameIf(IsInt(x), "harness:NotNormalised")
    \cup NameIf(Value(e.out) = x, "EncDenotes") \cup NameIf(IsMinimal(e.out), "EncMinimal")
    \cup NameIf(IsEnc(x, e.pre), "PreallocEnc")
    \cup (IF e.hasitem THEN NameIf(IsEnc(x, e.item), "StackItemEnc") ELSE {})
    \cup NameIf(IntOf(e.back) = x, "RoundTrip")
    \cup NameIf(e.same, "InputPreserved")

BytesChecks(e) ==
    NameIf(IntOf(e.v) = Value(e.b), "DecodeDenotes")
    \cup NameIf(IsEnc(Value(e.b), e.re), "Normalises")

VMChecks(e) == NameIf(IsEnc(Value(e.b), e.out), "VMMinimal")

Step ==
    /\ l <= Len(TLog)
    /\ l' = l + 1
    /\ LET e == TLog[l] IN
         CASE e.event = "int"   -> Report(l, IntChecks(e), [x |-> e.x, out |-> e.out])
           [] e.event = "bytes" -> Report(l, BytesChecks(e), [b |-> e.b, v |-> e.v, re |-> e.re])
           [] e.event = "vm"    -> Report(l, VMChecks(e), [b |-> e.b, how |-> e.how, out |-> e.out])

TraceSpec == Init /\ [][Step]_l
=============================================================================
