\* exhaustive, thorough tier: every realisable validity matrix with 5 keys (repeated keys allowed),
\* 1..min(n,4) signatures (invalid ones included), every interleaving of 3 workers / main loop.
\* The history variable is hidden (VIEW): it does not influence the behaviour.
SPECIFICATION Spec
CONSTANTS
  MinN = 5
  MaxN = 5
  MaxM = 4
  Universe = "labels"
  Workers = 3
  TaskCap = 2
  Dev = "none"
VIEW NoHist
INVARIANTS TypeOK Answer AbstractAgree Cursors
PROPERTIES Termin
CHECK_DEADLOCK TRUE
