\* delivery orders for 5 keys, 2..4 signatures, realisable matrices (m = 1 has nothing to schedule)
SPECIFICATION Spec
CONSTANTS
  MinN = 5
  MaxN = 5
  MinM = 2
  MaxM = 4
  Universe = "labels"
  Dev = "none"
INVARIANTS NotStuck Answer Emit
CHECK_DEADLOCK FALSE
