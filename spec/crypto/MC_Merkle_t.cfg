\* in-place Merkle root = recursive definition for every length 0..260; prints the root terms
SPECIFICATION Spec
CONSTANTS
  MaxLen = 260
  Dev = "none"
INVARIANTS ImplIsAbstract Emit
CHECK_DEADLOCK FALSE
