---------------------------- MODULE MultisigLoop ----------------------------
(***************************************************************************)
(* The variable-free part of the implementation-shaped model of            *)
(* vm.CheckMultisigPar (pkg/vm/vm.go): the input universes, the body of    *)
(* the main loop as a function of the locals, and the "quiescent" replay   *)
(* of a delivery order (deliver one result, let the main loop run until it *)
(* blocks again), which is how the harness steps the real code through the *)
(* gate hook vm.VerifMultisigGate.                                         *)
(* Shared by MultisigImpl (exhaustive interleavings), MultisigSched        *)
(* (enumeration of delivery orders to replay on the real code) and         *)
(* MultisigTrace (validation of what the real code did).                   *)
(* Indices k1,k2,s1,s2 and task fields are 0-based like in the code; the   *)
(* matrix V is 1-based.                                                    *)
(***************************************************************************)
EXTENDS Multisig, TLC

CONSTANTS Universe,     \* "labels": realisable matrices (repeated keys, invalid signatures); "any": all boolean matrices
          Dev           \* named deviation for the non-vacuity self-test: "none" | "BreakEarly" | "ContinueAtZero"

NoTask == [dir |-> "-", sig |-> 0, key |-> 0]
Task(d, s, k) == [dir |-> d, sig |-> s, key |-> k]

(* ---------------------------------------------------------------- universes *)
MaxOf(S) == CHOOSE x \in S : \A y \in S : y <= x
\* canonical labellings of n keys (restricted growth strings): every pattern of repeated keys once
CanonKeys(nn) == {f \in [1..nn -> 1..nn] :
                    /\ f[1] = 1
                    /\ \A j \in 2..nn : f[j] <= MaxOf({f[i] : i \in 1..(j - 1)}) + 1}
\* every signature is invalid (0) or made by one of the keys; different labellings may give the same
\* matrix, the set removes the duplicates
LabelMatrices(nn, mm) ==
    UNION { {FromLabels(key, sg) : sg \in [1..mm -> 0..MaxOf({key[i] : i \in 1..nn})]} : key \in CanonKeys(nn) }
AnyMatrices(nn, mm) == [1..mm -> [1..nn -> BOOLEAN]]
Matrices(nn, mm) == IF Universe = "labels" THEN LabelMatrices(nn, mm) ELSE AnyMatrices(nn, mm)

(* ---------------------------------------------------------------- the loop body
   One iteration of  `for r := range results`  as a function of the locals (a record) and the
   received result r = [signum, ok].  Returns the new locals; status says how the iteration ended:
   "recv" = continue, "done" = break loop, "send" = a new task (pend) is sent to the workers. *)
LoopBody(L, r) ==
    LET tc  == L.taskCount - 1
        fwd == r.signum # L.s2
    IN
    IF L.k1 + 1 = L.k2 THEN
        LET ok == r.ok /\ L.s1 + 1 = L.s2 IN
        [L EXCEPT !.taskCount = tc, !.sigok = ok,
                  !.status = IF (tc # 0 \/ Dev = "ContinueAtZero") /\ ok THEN "recv" ELSE "done"]
    ELSE IF r.ok /\ L.s1 + 1 = L.s2 THEN
        [L EXCEPT !.taskCount = tc,
                  !.status = IF (tc # 0 \/ Dev = "ContinueAtZero") /\ L.sigok /\ Dev # "BreakEarly"
                             THEN "recv" ELSE "done"]
    ELSE
        LET s1n == IF r.ok /\ fwd THEN L.s1 + 1 ELSE L.s1
            s2n == IF r.ok /\ ~fwd THEN L.s2 - 1 ELSE L.s2
            k1n == IF fwd THEN L.k1 + 1 ELSE L.k1
            k2n == IF fwd THEN L.k2 ELSE L.k2 - 1
        IN [L EXCEPT !.taskCount = tc + 1, !.s1 = s1n, !.s2 = s2n, !.k1 = k1n, !.k2 = k2n,
                     !.status = "send",
                     !.pend = IF fwd THEN Task("F", s1n, k1n) ELSE Task("B", s2n, k2n)]

InitLocals(nn, mm) ==
    [k1 |-> 0, k2 |-> nn - 1, s1 |-> 0, s2 |-> mm - 1, taskCount |-> 2, sigok |-> TRUE,
     status |-> "recv", pend |-> NoTask]

(* ---------------------------------------------------------------- quiescent stepping
   A coarse state: the locals plus the task pending in each direction (NoTask if none).  Deliver(d)
   = the worker holding the task of direction d verifies and delivers, the main loop consumes the
   result and runs until it blocks on the result channel again (or returns).
   For m = 1 the code takes the sequential path: there is nothing to schedule. *)
CInit(Vm, nn) ==
    IF Len(Vm) = 1
    THEN [L |-> [InitLocals(nn, 1) EXCEPT !.status = "done", !.taskCount = 0,
                                          !.sigok = \E k \in 1..nn : Vm[1][k]],
          F |-> NoTask, B |-> NoTask]
    ELSE [L |-> InitLocals(nn, Len(Vm)), F |-> Task("F", 0, 0), B |-> Task("B", Len(Vm) - 1, nn - 1)]

CanDeliver(c, d) == c.L.status = "recv" /\ c[d] # NoTask

CDeliver(Vm, c, d) ==
    LET t  == c[d]
        L2 == LoopBody(c.L, [signum |-> t.sig, ok |-> Vm[t.sig + 1][t.key + 1]])
    IN IF L2.status = "send"
       THEN [c EXCEPT !.L = [L2 EXCEPT !.status = "recv", !.pend = NoTask], ![d] = L2.pend]
       ELSE [c EXCEPT !.L = L2, ![d] = NoTask]

\* the projection of a coarse state that the harness can observe at the gate
Obs(c) == [status |-> c.L.status, sigok |-> c.L.sigok,
           F |-> [sig |-> c.F.sig, key |-> c.F.key, on |-> c.F # NoTask],
           B |-> [sig |-> c.B.sig, key |-> c.B.key, on |-> c.B # NoTask]]

\* replay of a sequence of directions; deliveries that are not possible (direction not in flight, loop
\* already finished) are skipped.  Returns the sequence of coarse states visited (first = initial).
RECURSIVE CReplay(_, _, _)
CReplay(Vm, c, sched) ==
    IF sched = <<>> THEN <<c>>
    ELSE IF CanDeliver(c, Head(sched)) THEN <<c>> \o CReplay(Vm, CDeliver(Vm, c, Head(sched)), Tail(sched))
    ELSE CReplay(Vm, c, Tail(sched))
=============================================================================
