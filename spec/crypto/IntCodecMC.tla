----------------------------- MODULE IntCodecMC -----------------------------
(* Exhaustive checks of the codec specification and enumeration of the boundary cases (see IntCodec). *)
EXTENDS IntCodec, FiniteSets

CONSTANTS MaxBytes,    \* boundaries up to 2^(8*MaxBytes)
          Small,       \* native cross-check for |x| <= Small
          Kinds,       \* which of "case", "string", "small" this run covers
          Dev          \* "none" | "NoSignByte" (non-vacuity: positive values with the top bit set get no 0x00)

EncD(x) == IF Dev = "NoSignByte" /\ ~x.neg /\ x.mag # <<>> THEN x.mag ELSE Enc(x)

(* third definition, native TLC integers *)
RECURSIVE P256(_)
P256(j) == IF j = 0 THEN 1 ELSE 256 * P256(j - 1)
NativeLen(x) == IF x = 0 THEN 0 ELSE CHOOSE L \in 1..4 : /\ 0 - (P256(L) \div 2) <= x /\ x < P256(L) \div 2
                                                         /\ \A K \in 1..(L - 1) : ~(0 - (P256(K) \div 2) <= x /\ x < P256(K) \div 2)
NativeEnc(x) == LET L == NativeLen(x)
                    u == IF x < 0 THEN x + P256(L) ELSE x
                IN [j \in 1..L |-> (u \div P256(j - 1)) % 256]

Boundaries ==
    {AddSmall(MkInt(FALSE, NatPow2(e)), d) : e \in {8 * kk - 1 : kk \in 1..MaxBytes} \cup {8 * kk : kk \in 1..MaxBytes}, d \in -2..2}
AllCases == LET P == Boundaries \cup {FromInt(x) : x \in -3..3} IN P \cup {Negate(v) : v \in P}

Strings(L) == UNION {[1..j -> Byte] : j \in 0..L}

VARIABLES kind, arg
vars == <<kind, arg>>
Init == \/ kind = "case"   /\ kind \in Kinds /\ arg \in AllCases
        \/ kind = "string" /\ kind \in Kinds /\ arg \in Strings(2)
        \/ kind = "small"  /\ kind \in Kinds /\ arg \in (0 - Small)..Small
Next == UNCHANGED vars
Spec == Init /\ [][Next]_vars

CaseOK   == kind = "case" => IsInt(arg) /\ IsEnc(arg, EncD(arg))
            \* the sign extensions denote the same integer and are not minimal
            /\ \A p \in 1..3 : LET q == Pad(EncD(arg), arg.neg, p) IN Value(q) = arg /\ ~IsMinimal(q)
StringOK == kind = "string" =>
               /\ IsEnc(Value(arg), EncD(Value(arg)))
               /\ (IsMinimal(arg) <=> EncD(Value(arg)) = arg)
               /\ (~IsMinimal(arg) => Len(EncD(Value(arg))) < Len(arg))
               \* minimal strings denote pairwise different integers (uniqueness of the encoding)
               /\ ToInt(Value(arg)) = (IF TopSet(arg) THEN NatToInt(arg) - P256(Len(arg)) ELSE NatToInt(arg))
SmallOK  == kind = "small" => /\ EncD(FromInt(arg)) = NativeEnc(arg)
                              /\ ToInt(Value(NativeEnc(arg))) = arg
                              /\ IsMinimal(NativeEnc(arg))

Emit == kind # "case" \/ PrintT(<<"@@CASE@@", ToJson([neg |-> arg.neg, mag |-> arg.mag, enc |-> Enc(arg)])>>)
=============================================================================
