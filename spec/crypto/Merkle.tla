------------------------------- MODULE Merkle -------------------------------
(***************************************************************************)
(* C18 part (b): "the Merkle root of a hash list equals the recursively    *)
(* defined pairwise double-SHA256 root".                                   *)
(*                                                                         *)
(* Abstract definition over an INJECTIVE hash: hash values are terms,      *)
(* written as strings so that equality is syntactic: leaf i is "i", the    *)
(* hash of the concatenation of two hashes a and b is "(a,b)".  A level of *)
(* odd length pairs its last element with itself.  The root of a single    *)
(* hash is that hash; the empty list has no root (the code answers the     *)
(* zero hash / an error; that convention is recorded, not judged).         *)
(*                                                                         *)
(* Implementation-shaped part: hash.CalcMerkleRoot works IN PLACE: level   *)
(* l+1 overwrites the first half of the slice holding level l while the    *)
(* rest of level l is still being read.  The state machine below writes    *)
(* one parent per step into the shared array; TLC checks for every length  *)
(* 0..MaxLen that the value left in slot 1 is the abstract root (the       *)
(* in-place update never reads a slot it has already overwritten).         *)
(* Each finished length is printed as a case (len, root term): the harness *)
(* evaluates the term with real SHA-256 and compares it with               *)
(* hash.CalcMerkleRoot, hash.NewMerkleTree(..).Root() and                  *)
(* block.ComputeMerkleRoot / RebuildMerkleRoot.                            *)
(***************************************************************************)
EXTENDS Integers, Sequences, TLC, Json

CONSTANTS MaxLen,
          Dev          \* "none" | "PromoteOdd" (odd element carried up unhashed) | "ReadParent" (reads the overwritten slot)

(* ---------------------------------------------------------------- abstract *)
H(a, b) == "(" \o a \o "," \o b \o ")"
Leaf(i) == ToString(i)
Leaves(k) == [i \in 1..k |-> Leaf(i)]

Level(l) == [i \in 1..((Len(l) + 1) \div 2) |->
                H(l[2 * i - 1], IF 2 * i <= Len(l) THEN l[2 * i] ELSE l[2 * i - 1])]

RECURSIVE MerkleRoot(_)
MerkleRoot(l) == IF Len(l) = 1 THEN l[1] ELSE MerkleRoot(Level(l))      \* Len(l) >= 1

(* ---------------------------------------------------------------- CalcMerkleRoot, in place *)
VARIABLES k,        \* length of the input list
          arr,      \* the slice (shared by all levels)
          len,      \* length of the level currently being reduced
          i,        \* 0-based index of the parent being computed
          pc        \* "pair" | "done"
vars == <<k, arr, len, i, pc>>

Init == /\ k \in 0..MaxLen
        /\ arr = Leaves(k) /\ len = k /\ i = 0
        /\ pc = IF k <= 1 THEN "done" ELSE "pair"

NParents == (len + 1) \div 2

Pair == /\ pc = "pair" /\ i < NParents
        /\ LET left  == arr[2 * i + 1]
               right == IF 2 * i + 1 = len
                        THEN left
                        ELSE IF Dev = "ReadParent" /\ i > 0 THEN arr[i] ELSE arr[2 * i + 2]
               par   == IF Dev = "PromoteOdd" /\ 2 * i + 1 = len THEN left ELSE H(left, right)
           IN arr' = [arr EXCEPT ![i + 1] = par]
        /\ i' = i + 1
        /\ UNCHANGED <<k, len, pc>>

NextLevel == /\ pc = "pair" /\ i = NParents
             /\ len' = NParents /\ i' = 0
             /\ pc' = IF NParents = 1 THEN "done" ELSE "pair"
             /\ UNCHANGED <<k, arr>>

Next == Pair \/ NextLevel
Spec == Init /\ [][Next]_vars

RootOf == IF k = 0 THEN "EMPTY" ELSE arr[1]
ImplIsAbstract == pc = "done" /\ k >= 1 => arr[1] = MerkleRoot(Leaves(k))

Emit == pc # "done" \/ PrintT(<<"@@CASE@@", ToJson([len |-> k, root |-> RootOf])>>)
=============================================================================
