\* in-place Merkle root = recursive definition for every length 0..40; prints the root terms
SPECIFICATION Spec
CONSTANTS
  MaxLen = 40
  Dev = "none"
INVARIANTS ImplIsAbstract Emit
CHECK_DEADLOCK FALSE
