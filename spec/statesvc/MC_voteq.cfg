SPECIFICATION Spec
CONSTANTS
  NN = 2
  NodeKey <- NK12
  Keys <- K4
  Sets <- SetsD
  MaxH = 1
  MaxD = 0
  Win = 2
  MaxR = 1
  MaxLag = 1
  MaxBehind = 1
  Base = 0
  AdvV <- AllV
  AdvR <- GoodR
  MaxAdv = 2
  MaxRestart = 0
  WithTimer = TRUE
  HeightBack = FALSE
  KeyQuirk = FALSE
  BugVoteTwice = FALSE
  BugOldSet = FALSE
  BugWrongMsg = FALSE
  BugFewer = FALSE
  BugNoMismatch = FALSE
  BugNoWitness = FALSE
  BugKeepForever = FALSE
  StaleSv = FALSE
  BugSendUnverified = FALSE
INVARIANTS AbsInv OwnVotesTrimmed
PROPERTIES AbsStep
CHECK_DEADLOCK FALSE
