SPECIFICATION Spec
CONSTANTS
  NN = 2
  NodeKey <- NK23
  Keys <- K4
  Sets <- SetsA
  MaxH = 2
  MaxD = 1
  Win = 2
  MaxR = 1
  MaxLag = 2
  MaxBehind = 2
  Base = 0
  AdvV <- ChgV
  AdvR <- SetR
  MaxAdv = 1
  MaxRestart = 0
  WithTimer = FALSE
  HeightBack = FALSE
  KeyQuirk = FALSE
  BugVoteTwice = FALSE
  BugOldSet = TRUE
  BugWrongMsg = FALSE
  BugFewer = FALSE
  BugNoMismatch = FALSE
  BugNoWitness = FALSE
  BugKeepForever = FALSE
  StaleSv = FALSE
  BugSendUnverified = TRUE
INVARIANTS AbsInv OwnVotesTrimmed
PROPERTIES AbsStep
CHECK_DEADLOCK FALSE
