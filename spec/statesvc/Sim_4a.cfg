SPECIFICATION SimSpec
CONSTANTS
  NN = 4
  NodeKey <- NK4
  Keys <- K6
  Sets <- SetsS
  MaxH = 4
  MaxD = 2
  Win = 10
  MaxR = 1
  MaxLag = 2
  MaxBehind = 2
  Base = 2
  AdvV <- AllV
  AdvR <- AllR
  MaxAdv = 8
  MaxRestart = 1
  WithTimer = FALSE
  HeightBack = FALSE
  KeyQuirk = FALSE
  BugVoteTwice = FALSE
  BugOldSet = FALSE
  BugWrongMsg = FALSE
  BugFewer = FALSE
  BugNoMismatch = FALSE
  BugNoWitness = FALSE
  BugKeepForever = FALSE
  StaleSv = FALSE
  BugSendUnverified = FALSE
  Depth = 70
INVARIANT Emit
CHECK_DEADLOCK FALSE
