---------------------------- MODULE StateSvcImpl ----------------------------
(***************************************************************************)
(* Code-shaped model of state root validation in neo-go: one action per    *)
(* critical section of pkg/services/stateroot (service.go run loop /       *)
(* signAndSend / sendVote timers, network.go AddSignature / trySendRoot /  *)
(* sendValidatedRoot / getIncompleteRoot, signature.go isSenderNow /       *)
(* finalize / reverify, OnPayload) and pkg/core/stateroot (store.go        *)
(* AddStateRoot, module.go VerifyStateRoot, validators.go                  *)
(* UpdateStateValidators / getKeyCacheForHeight), plus the environment:    *)
(* the block history with designations, per-node block arrival, the        *)
(* service's lag behind its chain, the network (any order, duplication,    *)
(* loss: a delivery picks any message ever sent) and an adversary who      *)
(* replays honest signatures in the wrong place, signs anything with the   *)
(* keys no honest node holds and forges validated-root payloads at will.   *)
(*                                                                         *)
(* Signatures are symbolic: [k, ch, cr] = key k signed the root record     *)
(* (height ch, root cr); cr = "g" is the history's root, "f" a forged one. *)
(*                                                                         *)
(* Named deviations (CONSTANT switches, all FALSE = the intended design;   *)
(* TLC must refute each of them with the abstract invariants of StateSvc): *)
(*   HeightBack     AddStateRoot stores the height unconditionally         *)
(*   KeyQuirk       getKeyCacheForHeight compares the NEXT entry with      *)
(*                  `< h` instead of `> h`                                 *)
(*   BugVoteTwice   a repeated vote counts twice towards M                 *)
(*   BugOldSet      the validator list of a height is the previous set     *)
(*   BugWrongMsg    a vote's signature is checked against the key only     *)
(*   BugFewer       the witness is assembled from M-1 signatures           *)
(*   BugNoMismatch  AddStateRoot does not compare with the local root      *)
(*   BugNoWitness   AddStateRoot does not verify the witness               *)
(*   BugKeepForever incomplete roots are never trimmed (Impl invariant)    *)
(*   StaleSv        the validator list / own index of an incomplete root   *)
(*                  are those of the moment the entry was made             *)
(*   BugSendUnverified  a root the node's own AddStateRoot refused is      *)
(*                  broadcast anyway (the second line of defence of the    *)
(*                  four vote-counting deviations: their configurations    *)
(*                  switch it off too, otherwise they only cost liveness)  *)
(* HeightBack and KeyQuirk are how the code under test behaved when this   *)
(* model was written (both found by this extension and repaired in /repo:  *)
(* d3fcc6d, 5827c1d); a refused root used to mark the incomplete root as   *)
(* sent (repaired: 51bbb30); StaleSv and BugSendUnverified were the code's  *)
(* behaviour too (repaired: ec75270).                                      *)
(***************************************************************************)
EXTENDS Integers, Sequences, FiniteSets, TLC

CONSTANTS NN, NodeKey, Keys, Sets, MaxH, MaxD, Win, MaxR, MaxLag, MaxBehind, Base,
          AdvV, AdvR, MaxAdv, MaxRestart, WithTimer,
          HeightBack, KeyQuirk, BugVoteTwice, BugOldSet, BugWrongMsg, BugFewer, BugNoMismatch, BugNoWitness,
          BugKeepForever, StaleSv, BugSendUnverified

VARIABLES top, B, nh, sh, kc, acc, inc, val, vh, sent, nadv, nrst, okstep, pend
vars == <<top, B, nh, sh, kc, acc, inc, val, vh, sent, nadv, nrst, okstep, pend>>

A == INSTANCE StateSvc

Nodes == 1..NN
Hs == 1..MaxH
None == [none |-> TRUE]
NoSig == [k |-> -1]
Held == {NodeKey[n] : n \in Nodes} \ {0}
Byz == Keys \ Held
MaxOf(S) == CHOOSE x \in S : \A y \in S : y <= x
RangeOf(s) == {s[i] : i \in DOMAIN s}
Pos(s, k) == CHOOSE i \in DOMAIN s : s[i] = k   \* 1-based
L == [h \in 0..MaxH |-> "g"]

----------------------------------------------------------------------------
\* validators.go: getKeyCacheForHeight / GetStateValidators
LookupI(c, h) ==
    LET C == {i \in DOMAIN c : /\ c[i].height <= h
                               /\ (i = Len(c) \/ (IF KeyQuirk THEN c[i + 1].height < h ELSE c[i + 1].height > h))}
    IN  IF C = {} THEN 0 ELSE MaxOf(C)
KcKeys(c, h) ==
    LET i == LookupI(c, h)
        j == IF BugOldSet /\ i > 1 THEN i - 1 ELSE i
    IN  IF j = 0 THEN <<>> ELSE c[j].keys
\* validators.go: UpdateStateValidators (+ the service's updateValidators callback)
KcUpdate(c, height, ks) == IF KcKeys(c, height) # ks THEN Append(c, [height |-> height, keys |-> ks]) ELSE c
AccFor(n, ks) ==
    IF NodeKey[n] # 0 /\ NodeKey[n] \in RangeOf(ks) THEN [ok |-> TRUE, idx |-> Pos(ks, NodeKey[n]) - 1]
    ELSE [ok |-> FALSE, idx |-> 0]

\* what a signature really is / what the node's check makes of it
TrueSig(s, pub, h) == s.k = pub /\ s.ch = h /\ s.cr = "g"
Verify(s, pub, h)  == IF BugWrongMsg THEN s.k = pub ELSE TrueSig(s, pub, h)

----------------------------------------------------------------------------
\* store.go AddStateRoot (with module.go VerifyStateRoot / verifyWitness): result and new (val[n], vh[n])
WitnessPasses(n, p) ==
    LET ks == KcKeys(kc[n], p.h)
    IN  BugNoWitness \/ (/\ ks # <<>> /\ p.wit.keys = ks /\ p.wit.m = A!MOf(Len(ks))
                         /\ p.wit.nsig = p.wit.m /\ Len(p.wit.matched) = p.wit.m)
AddRoot(n, p) ==
    IF p.h - 1 > nh[n] \/ p.nwit # 1 \/ ~WitnessPasses(n, p) \/ p.h > nh[n]
    THEN [res |-> "err", val |-> val[n], vh |-> vh[n]]
    ELSE IF p.root # "g" /\ ~BugNoMismatch
    THEN [res |-> "mismatch", val |-> val[n], vh |-> vh[n]]
    ELSE IF val[n][p.h] # None
    THEN [res |-> "dup", val |-> val[n], vh |-> vh[n]]
    ELSE [res |-> "ok", val |-> [val[n] EXCEPT ![p.h] = [root |-> p.root, wit |-> p.wit]],
          vh |-> IF HeightBack \/ p.h > vh[n] THEN p.h ELSE vh[n]]

----------------------------------------------------------------------------
\* network.go getIncompleteRoot
NewInc(n, h) == [sv |-> KcKeys(kc[n], h), known |-> FALSE, sigs |-> [k \in Keys |-> NoSig], myidx |-> acc[n].idx,
                 snt |-> FALSE, ret |-> -1]
\* (the validator list and the node's own index are fixed when the entry is made - StaleSv, as the code does - even if
\*  the entry is made by a vote that arrives before the node stored the designating block)
GetInc(n, h) == IF inc[n][h] = None THEN NewInc(n, h) ELSE inc[n][h]
\* signAndSend refreshes both when the block of that height is there (repair ec75270; StaleSv = the code before it)
Refresh(n, h, ir) == IF StaleSv THEN ir ELSE [ir EXCEPT !.sv = KcKeys(kc[n], h), !.myidx = acc[n].idx]
\* signature.go addSignature
PutSig(ir, pub, s) ==
    LET c == IF ir.sigs[pub] = NoSig \/ ~BugVoteTwice THEN 1 ELSE 2
    IN  [ir EXCEPT !.sigs[pub] = [k |-> s.k, ch |-> s.ch, cr |-> s.cr, ok |-> ir.known, cnt |-> c]]
\* signature.go isSenderNow
IsSender(ir, h) ==
    /\ ir.known /\ ~ir.snt /\ Len(ir.sv) > 0
    /\ ((Base + h - (IF ir.ret > 0 THEN ir.ret ELSE 0)) % Len(ir.sv)) = ir.myidx
\* signature.go finalize: the signatures put into the witness, in validator order
OkKeys(ir) == SelectSeq(ir.sv, LAMBDA k : ir.sigs[k] # NoSig /\ ir.sigs[k].ok)
Expand(ir, ks) ==   \* BugVoteTwice: every arrival of a vote is one more signature
    LET F[i \in 0..Len(ks)] == IF i = 0 THEN <<>> ELSE F[i - 1] \o [j \in 1..ir.sigs[ks[i]].cnt |-> ks[i]]
    IN  F[Len(ks)]
Chosen(ir) ==
    LET m    == A!MOf(Len(ir.sv))
        need == IF BugFewer THEN m - 1 ELSE m
        pool == IF BugVoteTwice THEN Expand(ir, OkKeys(ir)) ELSE OkKeys(ir)
    IN  IF Len(pool) >= need /\ need >= 0 THEN SubSeq(pool, 1, need) ELSE <<-1>>
Ready(ir) == Chosen(ir) # <<-1>>
\* what the assembled witness IS (CHECKMULTISIG never matches one key twice)
Dedup(s) == SelectSeq([i \in DOMAIN s |-> IF \E j \in 1..(i - 1) : s[j] = s[i] THEN -1 ELSE s[i]], LAMBDA x : x # -1)
WitnessOf(ir, h) ==
    LET ch == Chosen(ir)
    IN  [keys |-> ir.sv, m |-> A!MOf(Len(ir.sv)), nsig |-> Len(ch),
         matched |-> SelectSeq(Dedup(ch), LAMBDA k : TrueSig(ir.sigs[k], k, h))]
RootRec(h, r, w) == [h |-> h, root |-> r, nwit |-> 1, wit |-> w]

\* network.go trySendRoot (+ sendValidatedRoot): new incomplete root, new (val, vh) of the node, messages sent
TrySend(n, h, ir) ==
    IF IsSender(ir, h) /\ Ready(ir)
    THEN LET p == RootRec(h, "g", WitnessOf(ir, h))
             a == AddRoot(n, p)
         IN  IF a.res = "err" /\ ~BugSendUnverified
             THEN [ir |-> ir, val |-> val[n], vh |-> vh[n], out |-> {}]   \* peers would refuse it just the same
             ELSE [ir |-> [ir EXCEPT !.snt = TRUE], val |-> a.val, vh |-> a.vh, out |-> {[t |-> "root", from |-> n, p |-> p]}]
    ELSE [ir |-> ir, val |-> val[n], vh |-> vh[n], out |-> {}]

----------------------------------------------------------------------------
Init ==
    /\ top = 0 /\ B = <<[blk |-> 0, keys |-> Sets[1]]>>
    /\ nh = [n \in Nodes |-> 0] /\ sh = [n \in Nodes |-> 0]
    /\ kc = [n \in Nodes |-> <<[height |-> 1, keys |-> Sets[1]]>>]
    /\ acc = [n \in Nodes |-> AccFor(n, Sets[1])]
    /\ inc = [n \in Nodes |-> [h \in Hs |-> None]]
    /\ val = [n \in Nodes |-> [h \in Hs |-> None]]
    /\ vh = [n \in Nodes |-> 0]
    /\ sent = {} /\ nadv = 0 /\ nrst = 0
    /\ okstep = TRUE /\ pend = [n \in Nodes |-> FALSE]

\* the history grows by one block; d > 0: the block designates Sets[d] (in force from the next height)
NewBlock(d) ==
    /\ top < MaxH /\ top' = top + 1
    /\ \A n \in Nodes : top - nh[n] < MaxBehind
    /\ IF d = 0 THEN B' = B
       ELSE /\ Len(B) - 1 < MaxD /\ Sets[d] # B[Len(B)].keys
            /\ B' = Append(B, [blk |-> top + 1, keys |-> Sets[d]])
    /\ UNCHANGED <<nh, sh, kc, acc, inc, val, vh, sent, nadv, nrst, okstep, pend>>

DesigIn(b) == {i \in DOMAIN B : B[i].blk = b}
\* node n stores its next block; native Designation's PostPersist calls UpdateStateValidators(from, keys) with the latest
\* designation if the block made one - or if this is the first block after a start (the native cache was just filled)
AddBlock(n) ==
    /\ nh[n] < top /\ nh[n] - sh[n] < MaxLag
    /\ LET b == nh[n] + 1 IN
       /\ nh' = [nh EXCEPT ![n] = b]
       /\ IF DesigIn(b) = {} /\ ~pend[n] THEN UNCHANGED <<kc, acc>>
          ELSE LET e == B[MaxOf({i \in DOMAIN B : B[i].blk <= b})] IN
               /\ kc' = [kc EXCEPT ![n] = KcUpdate(@, e.blk + 1, e.keys)]
               /\ acc' = [acc EXCEPT ![n] = IF NodeKey[n] = 0 THEN @ ELSE AccFor(n, e.keys)]
       /\ pend' = [pend EXCEPT ![n] = FALSE]
    /\ UNCHANGED <<top, B, sh, inc, val, vh, sent, nadv, nrst, okstep>>

Trim(f, h) == IF h - Win >= 1 /\ ~BugKeepForever THEN [f EXCEPT ![h - Win] = None] ELSE f

\* service.go run loop: one block notification (signAndSend, sendVote, trimming)
SvcBlock(n) ==
    /\ sh[n] < nh[n]
    /\ LET h == sh[n] + 1 IN
       /\ sh' = [sh EXCEPT ![n] = h]
       /\ IF ~acc[n].ok
          THEN /\ inc' = [inc EXCEPT ![n] = Trim(@, h)]
               /\ UNCHANGED <<val, vh, sent>>
          ELSE LET me  == NodeKey[n]
                   ir1 == [PutSig(Refresh(n, h, GetInc(n, h)), me, [k |-> me, ch |-> h, cr |-> "g"]) EXCEPT !.known = TRUE, !.sigs[me].ok = TRUE]
                   ir2 == [ir1 EXCEPT !.sigs = [k \in Keys |->
                              IF ir1.sigs[k] = NoSig \/ ir1.sigs[k].ok THEN ir1.sigs[k]
                              ELSE [ir1.sigs[k] EXCEPT !.ok = Verify(ir1.sigs[k], k, h)]]]
                   ts  == TrySend(n, h, ir2)
                   vote == IF ts.ir.snt THEN {} ELSE {[t |-> "vote", from |-> n, h |-> h, idx |-> acc[n].idx, k |-> me, ch |-> h, cr |-> "g"]}
                   ir3 == IF ts.ir.snt THEN ts.ir ELSE [ts.ir EXCEPT !.ret = 0]
               IN  /\ inc' = [inc EXCEPT ![n] = Trim([@ EXCEPT ![h] = ir3], h)]
                   /\ val' = [val EXCEPT ![n] = ts.val] /\ vh' = [vh EXCEPT ![n] = ts.vh]
                   /\ sent' = sent \cup ts.out \cup vote
    /\ UNCHANGED <<top, B, nh, kc, acc, nadv, nrst, okstep, pend>>

\* network.go AddSignature (through OnPayload of a Vote): v = [h, idx, k, ch, cr]
VoteErr(n, v) ==
    /\ acc[n].ok
    /\ LET ir0 == GetInc(n, v.h) IN v.idx < 0 \/ v.idx >= Len(ir0.sv) \/ (ir0.known /\ ~Verify(v, ir0.sv[v.idx + 1], v.h))
TakeVote(n, v) ==
    /\ UNCHANGED <<okstep, pend>>
    /\ IF ~acc[n].ok
       THEN UNCHANGED <<inc, val, vh, sent>>
       ELSE LET ir0 == GetInc(n, v.h) IN
         IF v.idx < 0 \/ v.idx >= Len(ir0.sv) \/ (ir0.known /\ ~Verify(v, ir0.sv[v.idx + 1], v.h))
         THEN /\ inc' = [inc EXCEPT ![n][v.h] = ir0] /\ UNCHANGED <<val, vh, sent>>
         ELSE LET ts == TrySend(n, v.h, PutSig(ir0, ir0.sv[v.idx + 1], v)) IN
              /\ inc' = [inc EXCEPT ![n][v.h] = ts.ir]
              /\ val' = [val EXCEPT ![n] = ts.val] /\ vh' = [vh EXCEPT ![n] = ts.vh]
              /\ sent' = sent \cup ts.out

StOf(vhf, nhf, valf, n) ==
    [vh |-> vhf[n], loc |-> nhf[n],
     val |-> {RootRec(h, valf[n][h].root, valf[n][h].wit) : h \in {h \in Hs : valf[n][h] # None}}]
St(n)  == StOf(vh, nh, val, n)
StN(n) == StOf(vh', nh', val', n)
\* the abstract step predicates of a root delivery, evaluated where the delivered record and the answer are at hand
RootStepOK(n, p, a) ==
    LET st2 == [vh |-> a.vh, loc |-> nh[n],
                val |-> {RootRec(h, a.val[h].root, a.val[h].wit) : h \in {h \in Hs : a.val[h] # None}}]
    IN  /\ A!RefusedKeepsRoots(L, St(n), st2, p, a.res = "err")
        /\ A!RefusedUnchanged(B, L, St(n), st2, p)
        /\ A!NotRelayedBad(B, p, a.res # "err")

\* service.go OnPayload of a validated root p (relay = the handler returned nil)
TakeRoot(n, p) ==
    LET a == AddRoot(n, p) IN
    /\ val' = [val EXCEPT ![n] = a.val] /\ vh' = [vh EXCEPT ![n] = a.vh]
    /\ inc' = IF a.res \in {"ok", "dup"} /\ inc[n][p.h] # None THEN [inc EXCEPT ![n][p.h].snt = TRUE] ELSE inc
    /\ okstep' = (okstep /\ RootStepOK(n, p, a))
    /\ UNCHANGED <<sent, pend>>

VoteOf(m) == [h |-> m.h, idx |-> m.idx, k |-> m.k, ch |-> m.ch, cr |-> m.cr]
\* the network delivers any message ever sent by an honest node to any node (again and again, in any order, or never)
Deliver(n, m) ==
    /\ m \in sent /\ m.from # n
    /\ IF m.t = "vote" THEN TakeVote(n, VoteOf(m)) ELSE TakeRoot(n, m.p)
    /\ UNCHANGED <<top, B, nh, sh, kc, acc, nadv, nrst>>

\* sendVote timer of node n for height h fires: the vote is relayed again, the sender rotates
Timer(n, h) ==
    /\ WithTimer /\ inc[n][h] # None /\ inc[n][h].known /\ ~inc[n][h].snt /\ inc[n][h].ret >= 0 /\ inc[n][h].ret < MaxR
    /\ inc' = [inc EXCEPT ![n][h].ret = @ + 1]
    /\ UNCHANGED <<top, B, nh, sh, kc, acc, val, vh, sent, nadv, nrst, okstep, pend>>

\* clean stop and start: the store keeps validated roots and height; incomplete roots are gone; the module's key cache
\* is EMPTY until the next block is stored (the service's own account is set from the latest designation at once)
Restart(n) ==
    /\ nrst < MaxRestart /\ nrst' = nrst + 1
    /\ LET e == B[MaxOf({i \in DOMAIN B : B[i].blk <= nh[n]})]
       IN  /\ kc' = [kc EXCEPT ![n] = <<>>]
           /\ acc' = [acc EXCEPT ![n] = AccFor(n, e.keys)]
    /\ pend' = [pend EXCEPT ![n] = TRUE]
    /\ inc' = [inc EXCEPT ![n] = [h \in Hs |-> None]]
    /\ sh' = [sh EXCEPT ![n] = nh[n]]
    /\ UNCHANGED <<top, B, nh, val, vh, sent, nadv, okstep>>

----------------------------------------------------------------------------
\* the adversary.  Honest keys' signatures exist only where an honest node made them (replay); keys no node holds sign anything.
Signed(k, ch) == \E m \in sent : m.t = "vote" /\ m.k = k /\ m.ch = ch
MaxIdx == MaxOf({Len(Sets[i]) : i \in DOMAIN Sets})
SigsAvail == UNION {{[k |-> k, ch |-> c, cr |-> "g"] : c \in {c \in 1..top : Signed(k, c)}} : k \in Held}
             \cup {[k |-> k, ch |-> c, cr |-> r] : k \in Byz, c \in 1..top, r \in {"g", "f"}}
PosIn(s, k) == IF k \in RangeOf(s) THEN Pos(s, k) - 1 ELSE -1
OtherSets(h) == {Sets[i] : i \in DOMAIN Sets} \ {A!InForce(B, h)}
AdvVotes ==
    LET F(h) == A!InForce(B, h) IN
    (IF "garbage" \in AdvV THEN {[h |-> h, idx |-> i, k |-> 0, ch |-> 0, cr |-> "x"] : h \in 1..top, i \in {0, 1}} ELSE {})
    \cup (IF "otherheight" \in AdvV
          THEN UNION {{[h |-> h, idx |-> PosIn(F(h), s.k), k |-> s.k, ch |-> s.ch, cr |-> s.cr] :
                          s \in {s \in SigsAvail : s.cr = "g" /\ s.k \in RangeOf(F(h)) /\ s.ch # h}} : h \in 1..top} ELSE {})
    \cup (IF "fake" \in AdvV
          THEN {[h |-> s.ch, idx |-> PosIn(F(s.ch), s.k), k |-> s.k, ch |-> s.ch, cr |-> "f"] :
                    s \in {s \in SigsAvail : s.cr = "f" /\ s.k \in RangeOf(F(s.ch))}} ELSE {})
    \cup (IF "wrongidx" \in AdvV
          THEN {[h |-> s.ch, idx |-> i, k |-> s.k, ch |-> s.ch, cr |-> "g"] :
                    s \in {s \in SigsAvail : s.cr = "g"}, i \in -1..MaxIdx} ELSE {})
    \cup (IF "oldset" \in AdvV
          THEN UNION {{[h |-> s.ch, idx |-> PosIn(o, s.k), k |-> s.k, ch |-> s.ch, cr |-> "g"] :
                          o \in {o \in OtherSets(s.ch) : s.k \in RangeOf(o)}} :
                      s \in {s \in SigsAvail : s.cr = "g" /\ s.k \notin RangeOf(F(s.ch))}} ELSE {})
    \cup (IF "byzgood" \in AdvV
          THEN {[h |-> s.ch, idx |-> PosIn(F(s.ch), s.k), k |-> s.k, ch |-> s.ch, cr |-> "g"] :
                    s \in {s \in SigsAvail : s.cr = "g" /\ s.k \in Byz /\ s.k \in RangeOf(F(s.ch))}} ELSE {})

Wit(ks, m, ns, j) == [keys |-> ks, m |-> m, nsig |-> ns, matched |-> SubSeq(ks, 1, j)]
AdvRoots ==
    LET F(h) == A!InForce(B, h)
        G(h) == Wit(F(h), A!MOf(Len(F(h))), A!MOf(Len(F(h))), A!MOf(Len(F(h))))
        HH   == 1..top
    IN
    (IF "good" \in AdvR THEN {RootRec(h, "g", G(h)) : h \in HH} ELSE {})
    \cup (IF "mismatch" \in AdvR THEN {RootRec(h, "f", G(h)) : h \in HH} ELSE {})
    \cup (IF "fewsig" \in AdvR THEN {RootRec(h, "g", Wit(F(h), G(h).m, G(h).m - 1, G(h).m - 1)) : h \in HH} ELSE {})
    \cup (IF "badsig" \in AdvR THEN {RootRec(h, "g", Wit(F(h), G(h).m, G(h).m, G(h).m - 1)) : h \in HH} ELSE {})
    \cup (IF "lowm" \in AdvR THEN {RootRec(h, "g", Wit(F(h), G(h).m - 1, G(h).m - 1, G(h).m - 1)) : h \in HH} ELSE {})
    \cup (IF "otherset" \in AdvR
          THEN {RootRec(h, "g", Wit(o, A!MOf(Len(o)), A!MOf(Len(o)), A!MOf(Len(o)))) : h \in HH, o \in UNION {OtherSets(x) : x \in HH}} \ {RootRec(h, "g", G(h)) : h \in HH}
          ELSE {})
    \cup (IF "nwit" \in AdvR THEN {[RootRec(h, "g", G(h)) EXCEPT !.nwit = w] : h \in HH, w \in {0, 2}} ELSE {})

AdvVote(n, v) ==
    /\ nadv < MaxAdv /\ nadv' = nadv + 1 /\ v \in AdvVotes
    /\ TakeVote(n, v)
    /\ UNCHANGED <<top, B, nh, sh, kc, acc, nrst>>
AdvRoot(n, p) ==
    /\ nadv < MaxAdv /\ nadv' = nadv + 1 /\ p \in AdvRoots
    /\ TakeRoot(n, p)
    /\ UNCHANGED <<top, B, nh, sh, kc, acc, nrst>>

Next ==
    \/ \E d \in 0..Len(Sets) : NewBlock(d)
    \/ \E n \in Nodes : AddBlock(n) \/ SvcBlock(n) \/ Restart(n)
    \/ \E n \in Nodes, m \in sent : Deliver(n, m)
    \/ \E n \in Nodes, h \in Hs : Timer(n, h)
    \/ \E n \in Nodes : \E v \in AdvVotes : AdvVote(n, v)
    \/ \E n \in Nodes : \E p \in AdvRoots : AdvRoot(n, p)
Spec == Init /\ [][Next]_vars

----------------------------------------------------------------------------
\* the abstract view
\* judged group
StoredLocal == \A n \in Nodes : A!StoredIsLocal(L, St(n))
EmitsLocal  == \A m \in sent : m.t = "root" => A!EmitIsLocal(L, m.p)
VotesLocal  == \A m \in sent : m.t = "vote" => A!VoteIsLocal(L, [signer |-> m.k, h |-> m.h, ch |-> m.ch, cr |-> m.cr], NodeKey[m.from])
\* beyond-the-statement group
Sound      == \A n \in Nodes : A!StoredSound(B, L, St(n))
EmitsSound == \A m \in sent : m.t = "root" => A!EmitSound(B, L, m.p)
AbsInv == StoredLocal /\ EmitsLocal /\ VotesLocal /\ Sound /\ EmitsSound /\ okstep

StepOK == \A n \in Nodes : A!Monotone(St(n), StN(n)) /\ A!Kept(B', L, St(n), StN(n))
AbsStep == [][StepOK]_vars

\* Impl level: the incomplete roots a node made for its own votes stay inside the window
OwnVotesTrimmed == \A n \in Nodes, h \in Hs : (inc[n][h] # None /\ inc[n][h].known) => h > sh[n] - Win
=============================================================================
