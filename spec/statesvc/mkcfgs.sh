#!/bin/bash
# Generates the MC_*.cfg / Sim_*.cfg files of this directory (kept for reproducibility; the .cfg files are committed).
cd "$(dirname "$0")"
mk() { # file spec inv NN NodeKey Keys Sets MaxH MaxD Win MaxR MaxLag MaxBehind Base AdvV AdvR MaxAdv MaxRestart WithTimer [Switch=TRUE ...]
  f=$1; spec=$2; inv=$3; shift 3
  declare -A sw=([HeightBack]=FALSE [KeyQuirk]=FALSE [BugVoteTwice]=FALSE [BugOldSet]=FALSE [BugWrongMsg]=FALSE [BugFewer]=FALSE [BugNoMismatch]=FALSE [BugNoWitness]=FALSE [BugKeepForever]=FALSE [StaleSv]=FALSE [BugSendUnverified]=FALSE)
  a=("$@")
  for x in "${a[@]:16}"; do sw[${x%%=*}]=${x##*=}; done
  {
  echo "SPECIFICATION $spec"
  echo "CONSTANTS"
  echo "  NN = ${a[0]}"; echo "  NodeKey <- ${a[1]}"; echo "  Keys <- ${a[2]}"; echo "  Sets <- ${a[3]}"
  echo "  MaxH = ${a[4]}"; echo "  MaxD = ${a[5]}"; echo "  Win = ${a[6]}"; echo "  MaxR = ${a[7]}"; echo "  MaxLag = ${a[8]}"
  echo "  MaxBehind = ${a[9]}"; echo "  Base = ${a[10]}"; echo "  AdvV <- ${a[11]}"; echo "  AdvR <- ${a[12]}"; echo "  MaxAdv = ${a[13]}"
  echo "  MaxRestart = ${a[14]}"; echo "  WithTimer = ${a[15]}"
  for k in HeightBack KeyQuirk BugVoteTwice BugOldSet BugWrongMsg BugFewer BugNoMismatch BugNoWitness BugKeepForever StaleSv BugSendUnverified; do echo "  $k = ${sw[$k]}"; done
  if [ "$spec" = "SimSpec" ]; then echo "  Depth = $inv"; echo "INVARIANT Emit"; else echo "INVARIANTS $inv"; echo "PROPERTIES AbsStep"; fi
  echo "CHECK_DEADLOCK FALSE"
  } > $f
}
INV="AbsInv OwnVotesTrimmed"
#                            NN key   keys sets   H D W R L Bh Base advV  advR  adv rst timer
mk MC_store.cfg   Spec "$INV" 1 NK0   K5 SetsB  3 2 2 1 1 3  0   NoAdv AllR   3  1  FALSE
mk MC_vote.cfg    Spec "$INV" 2 NK12  K4 SetsD  1 0 2 2 1 1  0   AllV  GoodR  3  1  TRUE
mk MC_voteq.cfg   Spec "$INV" 2 NK12  K4 SetsD  1 0 2 1 1 1  0   AllV  GoodR  2  0  TRUE
mk MC_vote2.cfg   Spec "$INV" 2 NK12  K4 SetsD  2 0 2 1 1 1  1   ByzV  NoAdv  2  0  TRUE
mk MC_change.cfg    Spec "$INV" 2 NK23  K4 SetsA  2 1 2 1 1 2  0   ChgV  SetR   2  0  FALSE
mk MC_changeq.cfg Spec "$INV" 2 NK23  K4 SetsA  2 1 2 1 2 2  0   ChgV  SetR   1  0  FALSE
mk MC_early.cfg   Spec "$INV" 1 NK2   K4 SetsA  2 1 2 1 1 2  3   IdxV  NoAdv  2  0  FALSE
mk MC_small.cfg   Spec "$INV" 2 NK12  K4 SetsC2 2 1 1 1 1 1  0   NoAdv GoodR  1  1  TRUE
# named deviations: each must be refuted
mk MC_dev_heightback.cfg  Spec "$INV" 1 NK0  K5 SetsB  3 2 2 1 1 3 0 NoAdv AllR  3 1 FALSE HeightBack=TRUE
mk MC_dev_keyquirk.cfg    Spec "$INV" 1 NK0  K5 SetsB  3 2 2 1 1 3 0 NoAdv AllR  3 1 FALSE KeyQuirk=TRUE
mk MC_dev_nomismatch.cfg  Spec "$INV" 1 NK0  K5 SetsB  3 2 2 1 1 3 0 NoAdv AllR  3 1 FALSE BugNoMismatch=TRUE
mk MC_dev_nowitness.cfg   Spec "$INV" 1 NK0  K5 SetsB  3 2 2 1 1 3 0 NoAdv AllR  3 1 FALSE BugNoWitness=TRUE
mk MC_dev_votetwice.cfg   Spec "$INV" 2 NK12 K4 SetsD  1 0 2 1 1 1 0 AllV  GoodR 2 0 TRUE  BugVoteTwice=TRUE BugSendUnverified=TRUE
mk MC_dev_wrongmsg.cfg    Spec "$INV" 2 NK12 K4 SetsD  1 0 2 1 1 1 0 AllV  GoodR 2 0 TRUE  BugWrongMsg=TRUE BugSendUnverified=TRUE
mk MC_dev_fewer.cfg       Spec "$INV" 2 NK12 K4 SetsD  1 0 2 1 1 1 0 AllV  GoodR 2 0 TRUE  BugFewer=TRUE BugSendUnverified=TRUE
mk MC_dev_oldset.cfg      Spec "$INV" 2 NK23 K4 SetsA  2 1 2 1 2 2 0 ChgV  SetR  1 0 FALSE BugOldSet=TRUE BugSendUnverified=TRUE
mk MC_dev_stalesv.cfg     Spec "$INV" 1 NK2  K4 SetsA  2 1 2 1 1 2 3 IdxV  NoAdv 2 0 FALSE StaleSv=TRUE BugSendUnverified=TRUE
mk MC_dev_keepforever.cfg Spec "$INV" 2 NK12 K4 SetsC2 2 1 1 1 1 1 0 NoAdv GoodR 1 1 TRUE  BugKeepForever=TRUE
# behaviour generators (all switches off = how the code under test behaves after the repairs)
#                          depth NN key  keys sets   H D W  R L Bh Base advV advR adv rst timer
mk Sim_4a.cfg SimSpec 70   4 NK4   K6 SetsS  4 2 10 1 2 2  2   AllV AllR 8   1  FALSE
mk Sim_4b.cfg SimSpec 70   4 NK4   K6 SetsT  4 2 10 1 2 2  2   AllV AllR 8   1  FALSE
mk Sim_7.cfg  SimSpec 110  7 NK7   K9 SetsU  4 2 10 1 2 2  2   AllV AllR 10  1  FALSE
