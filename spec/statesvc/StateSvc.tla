------------------------------ MODULE StateSvc ------------------------------
(***************************************************************************)
(* Abstract (property level) specification of STATE ROOT VALIDATION: the   *)
(* machinery on top of the local state roots of property C03 ("the state   *)
(* root of every height commits exactly to contract storage").  Designated *)
(* StateValidator nodes sign the local root of every height, exchange      *)
(* votes, assemble an M-of-N multisignature witness and broadcast the      *)
(* VALIDATED root; every node that receives one checks it and stores it.   *)
(* A validated root is the statement "the designated validators agree that *)
(* THIS is the root of height h"; it is only worth something if what a     *)
(* node stores / hands on under that name is the root C03 speaks about,    *)
(* signed by the validators of that height.  This module says that and     *)
(* nothing more:                                                           *)
(*                                                                         *)
(* The predicates come in two groups (lead's ruling): JUDGED ones are what *)
(* the statement of C03 literally demands (the root stored / signed /      *)
(* assembled for h is the root of the local trie of h; a refused root      *)
(* changes no stored root); the others are BEYOND the statement (witness   *)
(* rules for roots that equal the local one, validated height, designation *)
(* changes, restarts, relaying) and are reported as observations only.     *)
(*                                                                         *)
(*  (1) StoredSound / EmitSound: a validated root is stored (emitted by an *)
(*      honest validator) only if its witness is a correct M-of-N          *)
(*      multisignature of the StateValidators designated for its height    *)
(*      and it is the history's root of that height.  RefusedUnchanged: a  *)
(*      root that is not acceptable changes nothing; NotRelayedBad: a      *)
(*      badly signed one is not handed on.                                 *)
(*  (2) Monotone: the validated height only grows.                         *)
(*  (3) EmitSound again: whatever the order / duplication / loss of votes, *)
(*      an honest validator emits for height h the history's root with a   *)
(*      correct witness, or nothing (every signature in the witness is a   *)
(*      designated key's signature of exactly that root: a vote for        *)
(*      another height, of another key or with a bad signature cannot be   *)
(*      in it).  VoteSound: an honest node signs only the history's root.  *)
(*  (4) InForce: the designation made in block b is in force from height   *)
(*      b+1 on (native Designation stores it under index b+1), until the   *)
(*      next one; WitnessOK compares with exactly that set.                *)
(*  (5) Kept + Monotone across a restart.                                  *)
(*                                                                         *)
(* Data (all read back from the real objects by the harness, signatures    *)
(* established with the crypto library only):                              *)
(*   B    sequence of designations [blk, keys]: made in block blk (0 = in  *)
(*        the genesis block), keys in validator index order                *)
(*   L    function height -> root id of the history (the local root every  *)
(*        node computes: that part is the registered C03 check)            *)
(*   root record [h, root, nwit, wit = [keys, m, nsig, matched]]: the      *)
(*        keys / threshold of the verification script, the number of       *)
(*        signatures in the invocation script and the keys whose           *)
(*        signatures of THIS record they are, matched the way CHECKMULTISIG *)
(*        matches                                                          *)
(*   node state [vh, loc, val]: validated height, local height, set of     *)
(*        stored records that carry a witness                              *)
(***************************************************************************)
EXTENDS Integers, Sequences, FiniteSets

MOf(n) == n - ((n - 1) \div 3)

\* (4) the set in force at height h: the last designation made in a block below h
InForce(B, h) ==
    LET I == {i \in DOMAIN B : B[i].blk < h}
    IN  IF I = {} THEN <<>> ELSE B[CHOOSE i \in I : \A j \in I : j <= i].keys

WitnessOK(B, h, w) ==
    LET d == InForce(B, h)
    IN  /\ d # <<>>
        /\ w.keys = d
        /\ w.m = MOf(Len(d))
        /\ w.nsig = w.m
        /\ Len(w.matched) = w.m

\* the validated root of height r.h
RootOK(B, L, r) ==
    /\ r.nwit = 1
    /\ r.h \in DOMAIN L /\ r.h >= 1
    /\ r.root = L[r.h]
    /\ WitnessOK(B, r.h, r.wit)

----------------------------------------------------------------------------
(* JUDGED: what the statement of C03 itself demands of this machinery - a root stored, handed on by an honest        *)
(* validator or signed by it under the name "root of height h" IS the root of h (L[h], the root of the local trie    *)
(* after block h), and a root the node refuses changes no stored root.                                               *)
StoredIsLocal(L, st) == \A r \in st.val : r.h \in DOMAIN L /\ r.root = L[r.h]
EmitIsLocal(L, p)    == p.h \in DOMAIN L /\ p.h >= 1 /\ p.root = L[p.h]
\* an honest node holding `key` signs only the root of the height it names
VoteIsLocal(L, v, key) == v.signer = key /\ v.ch = v.h /\ v.h \in DOMAIN L /\ v.cr = L[v.h]
\* p was refused (the handler answered with an error) or is not the root of its height: no stored record changes
Refusal(L, p, err)   == err \/ p.h \notin DOMAIN L \/ p.root # L[p.h]
RefusedKeepsRoots(L, st, st2, p, err) == Refusal(L, p, err) => st2.val = st.val

----------------------------------------------------------------------------
(* BEYOND THE STATEMENT (the growth of the specification: reported as named observations, never as violations):     *)
(* the witness rules of a validated root that EQUALS the local root, the validated height, restarts, relaying.      *)
StoredSound(B, L, st) == \A r \in st.val : RootOK(B, L, r)
Monotone(st, st2) == st2.vh >= st.vh
Kept(B, L, st, st2) ==
    \A r \in st.val : RootOK(B, L, r) => \E q \in st2.val : q.h = r.h /\ q.root = r.root /\ q.nwit >= 1
\* a node with local height loc may take the root record p
Acceptable(B, L, loc, p) == RootOK(B, L, p) /\ p.h <= loc
RefusedUnchanged(B, L, st, st2, p) == (~Acceptable(B, L, st.loc, p)) => (st2.val = st.val /\ st2.vh = st.vh)
BadlySigned(B, p) == p.h >= 1 /\ (p.nwit # 1 \/ ~WitnessOK(B, p.h, p.wit))
\* relay: the handler told the server to hand the payload on
NotRelayedBad(B, p, relay) == BadlySigned(B, p) => ~relay
\* what an honest validator emits carries the witness of the set in force
EmitSound(B, L, p) == RootOK(B, L, p)
\* informational: the voter is designated for the height it votes for, under its own index
VoteDesignated(B, v) ==
    LET d == InForce(B, v.h) IN v.idx >= 0 /\ v.idx < Len(d) /\ d[v.idx + 1] = v.signer
=============================================================================
