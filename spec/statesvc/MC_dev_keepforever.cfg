SPECIFICATION Spec
CONSTANTS
  NN = 2
  NodeKey <- NK12
  Keys <- K4
  Sets <- SetsC2
  MaxH = 2
  MaxD = 1
  Win = 1
  MaxR = 1
  MaxLag = 1
  MaxBehind = 1
  Base = 0
  AdvV <- NoAdv
  AdvR <- GoodR
  MaxAdv = 1
  MaxRestart = 1
  WithTimer = TRUE
  HeightBack = FALSE
  KeyQuirk = FALSE
  BugVoteTwice = FALSE
  BugOldSet = FALSE
  BugWrongMsg = FALSE
  BugFewer = FALSE
  BugNoMismatch = FALSE
  BugNoWitness = FALSE
  BugKeepForever = TRUE
  StaleSv = FALSE
  BugSendUnverified = FALSE
INVARIANTS AbsInv OwnVotesTrimmed
PROPERTIES AbsStep
CHECK_DEADLOCK FALSE
