SPECIFICATION Spec
CONSTANTS
  NN = 1
  NodeKey <- NK0
  Keys <- K5
  Sets <- SetsB
  MaxH = 3
  MaxD = 2
  Win = 2
  MaxR = 1
  MaxLag = 1
  MaxBehind = 3
  Base = 0
  AdvV <- NoAdv
  AdvR <- AllR
  MaxAdv = 3
  MaxRestart = 1
  WithTimer = FALSE
  HeightBack = FALSE
  KeyQuirk = TRUE
  BugVoteTwice = FALSE
  BugOldSet = FALSE
  BugWrongMsg = FALSE
  BugFewer = FALSE
  BugNoMismatch = FALSE
  BugNoWitness = FALSE
  BugKeepForever = FALSE
  StaleSv = FALSE
  BugSendUnverified = FALSE
INVARIANTS AbsInv OwnVotesTrimmed
PROPERTIES AbsStep
CHECK_DEADLOCK FALSE
