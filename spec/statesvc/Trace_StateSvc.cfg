SPECIFICATION TraceSpec
POSTCONDITION TraceAccepted
CHECK_DEADLOCK FALSE
