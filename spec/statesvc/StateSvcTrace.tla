--------------------------- MODULE StateSvcTrace ---------------------------
(* Validates traces recorded from N REAL state root services (pkg/services/stateroot) on N real core.Blockchains
   (harness/c03statesvc) against the ABSTRACT specification StateSvc.  Events:
     init      a world: the key universe, which node holds which key, the designation of the genesis block, root of height 0
     newblock  the history grows: height, its state root (as the reference chain computed it), the designation made in it
     emit      node n handed a payload to its relay callback: a vote or a validated root, described from its bytes
     addblock / svcblock / deliver / restart / tick
               a step of node n; every one carries the node's state read back from the real stateroot.Module afterwards
               (validated height, local height, every stored record that has a witness or differs from the history);
               deliver also carries the payload (described from its bytes), whether the handler answered with an
               error, and whether network.Server would hand the payload on
   Names of falsified predicates: "J:..." = demanded by the statement of C03 (verdict), "beyond:..." = growth of the
   specification beyond the statement (observation, never a verdict). *)
EXTENDS TraceIO, FiniteSets, SequencesExt

VARIABLES l, B, L, S, K
vars == <<l, B, L, S, K>>

M == INSTANCE StateSvc

Init == l = 1 /\ B = <<>> /\ L = <<>> /\ S = <<>> /\ K = <<>>

St(x) == [vh |-> x.vh, loc |-> x.loc, val |-> ToSet(x.val)]
EmptySt == [vh |-> 0, loc |-> 0, val |-> {}]

StateChecks(st, st2) ==
    NameIf(M!StoredIsLocal(L, st2), "J:StoredIsLocal")
    \cup NameIf(\A r \in st2.val : (r.h \in DOMAIN L /\ r.root = L[r.h]) => M!RootOK(B, L, r), "beyond:StoredWitness")
    \cup NameIf(M!Monotone(st, st2), "beyond:Monotone")
    \cup NameIf(M!Kept(B, L, st, st2), "beyond:Kept")

RootChecks(st, st2, p, err, relay) ==
    NameIf(M!RefusedKeepsRoots(L, st, st2, p, err), "J:RefusedKeepsRoots")
    \cup NameIf(M!RefusedUnchanged(B, L, st, st2, p), "beyond:RefusedUnchanged")
    \cup NameIf(M!NotRelayedBad(B, p, relay), "beyond:NotRelayedBad")
    \cup NameIf((p.h >= 1 /\ p.h \in DOMAIN L /\ p.root # L[p.h]) => ~relay, "beyond:MismatchNotRelayed")
    \cup NameIf(M!Acceptable(B, L, st.loc, p) => ~err, "beyond:AcceptedGood")

\* the witness is a complete, correct multisignature - of a set designated EARLIER than the one in force (the service keeps
\* the validator list of the moment the incomplete root was made)
StaleSet(p) ==
    /\ p.nwit = 1 /\ p.wit.m = M!MOf(Len(p.wit.keys)) /\ p.wit.nsig = p.wit.m /\ Len(p.wit.matched) = p.wit.m
    /\ \E i \in DOMAIN B : B[i].keys = p.wit.keys /\ B[i].blk < p.h

EmitChecks(n, p) ==
    IF p.kind = "root"
    THEN NameIf(M!EmitIsLocal(L, p), "J:EmitIsLocal")
         \cup (IF M!EmitIsLocal(L, p) /\ ~M!EmitSound(B, L, p)
               THEN (IF StaleSet(p) THEN {"beyond:EmitStaleSet"} ELSE {"beyond:EmitWitness"}) ELSE {})
    ELSE IF p.kind = "vote"
    THEN NameIf(M!VoteIsLocal(L, p, K[n]), "J:VoteIsLocal")
         \cup NameIf(M!VoteDesignated(B, p), "beyond:VoteDesignated")
    ELSE {"beyond:EmitJunk"}

Step ==
    /\ l <= Len(TLog)
    /\ l' = l + 1
    /\ LET e == TLog[l] IN
       CASE e.event = "init" ->
              /\ B' = e.B /\ L' = (0 :> e.root0)
              /\ S' = [n \in 0..(e.nn - 1) |-> EmptySt]
              /\ K' = [n \in 0..(e.nn - 1) |-> e.nodekey[n + 1]]
         [] e.event = "newblock" ->
              /\ L' = (L @@ (e.h :> e.root))
              /\ B' = IF e.desig = <<>> THEN B ELSE Append(B, [blk |-> e.h, keys |-> e.desig])
              /\ UNCHANGED <<S, K>>
         [] e.event = "emit" ->
              /\ UNCHANGED <<B, L, S, K>>
              /\ Report(l, EmitChecks(e.n, e.p), [ev |-> e])
         [] e.event \in {"addblock", "svcblock", "restart", "tick"} ->
              /\ S' = [S EXCEPT ![e.n] = St(e.st)]
              /\ UNCHANGED <<B, L, K>>
              /\ Report(l, StateChecks(S[e.n], St(e.st)), [ev |-> e, before |-> S[e.n]])
         [] e.event = "deliver" ->
              /\ S' = [S EXCEPT ![e.n] = St(e.st)]
              /\ UNCHANGED <<B, L, K>>
              /\ Report(l, StateChecks(S[e.n], St(e.st))
                           \cup (IF e.p.kind = "root" THEN RootChecks(S[e.n], St(e.st), e.p, e.err, e.relay) ELSE {}),
                        [ev |-> e, before |-> S[e.n]])

TraceSpec == Init /\ [][Step]_vars
=============================================================================
