---------------------------- MODULE StateSvcSim ----------------------------
(* Behaviour generator: StateSvcImpl plus a history of the steps taken and of what the model predicts for each of them
   (answer, messages sent, validated height and validated heights of the node concerned), printed as JSON when the
   depth bound is reached (tlc -simulate).  harness/c03statesvc replays the steps on N real state root services on N
   real chains: model key i is the i-th key of the universe in public key order, model height h is real height
   Base + h, an honest message [t, from, h] is whatever node `from` REALLY relayed of that type for that height, an
   adversary message is crafted and really signed from its symbolic description.  The adversary's and the network's
   choices are drawn with RandomElement so that parameter-heavy actions do not crowd out the protocol's own steps. *)
EXTENDS MCStateSvc, Json

CONSTANT Depth
VARIABLE hist

ValH(n) == {h \in Hs : val'[n][h] # None}
Outs == {[t |-> m.t, from |-> m.from, h |-> (IF m.t = "vote" THEN m.h ELSE m.p.h)] : m \in sent' \ sent}
Post(n) == [vh |-> vh'[n], val |-> ValH(n), out |-> Outs]
Pick(S) == RandomElement(S)

SimInit == Init /\ hist = <<[op |-> "init", nn |-> NN, nodekey |-> NodeKey, sets |-> Sets, base |-> Base, nkeys |-> Cardinality(Keys)]>>
SimNext ==
    \/ \E d \in 0..Len(Sets) : NewBlock(d) /\ hist' = Append(hist, [op |-> "newblock", h |-> top + 1, d |-> d])
    \/ \E n \in Nodes : AddBlock(n) /\ hist' = Append(hist, [op |-> "addblock", n |-> n, h |-> nh[n] + 1])
    \/ \E n \in Nodes : SvcBlock(n) /\ hist' = Append(hist, [op |-> "svcblock", n |-> n, h |-> sh[n] + 1, post |-> Post(n)])
    \/ \E n \in Nodes : Restart(n) /\ hist' = Append(hist, [op |-> "restart", n |-> n])
    \/ /\ sent # {}
       /\ \E n \in Nodes : \E m \in {Pick(sent)} :
            /\ Deliver(n, m)
            /\ hist' = Append(hist, [op |-> "deliver", n |-> n, t |-> m.t, from |-> m.from, h |-> (IF m.t = "vote" THEN m.h ELSE m.p.h),
                                     err |-> (IF m.t = "vote" THEN VoteErr(n, VoteOf(m)) ELSE AddRoot(n, m.p).res = "err"),
                                     post |-> Post(n)])
    \/ /\ sent # {}
       /\ \E n \in Nodes : \E m \in {Pick(sent)} :
            /\ Deliver(n, m)
            /\ hist' = Append(hist, [op |-> "deliver", n |-> n, t |-> m.t, from |-> m.from, h |-> (IF m.t = "vote" THEN m.h ELSE m.p.h),
                                     err |-> (IF m.t = "vote" THEN VoteErr(n, VoteOf(m)) ELSE AddRoot(n, m.p).res = "err"),
                                     post |-> Post(n)])
    \/ /\ AdvVotes # {}
       /\ \E v \in {Pick(AdvVotes)} : \E n \in {Pick(Nodes)} :
            /\ AdvVote(n, v)
            /\ hist' = Append(hist, [op |-> "advvote", n |-> n, v |-> v, err |-> VoteErr(n, v), post |-> Post(n)])
    \/ /\ AdvRoots # {}
       /\ \E p \in {Pick(AdvRoots)} : \E n \in {Pick(Nodes)} :
            /\ AdvRoot(n, p)
            /\ hist' = Append(hist, [op |-> "advroot", n |-> n, p |-> p, res |-> AddRoot(n, p).res, post |-> Post(n)])
SimSpec == SimInit /\ [][SimNext]_<<vars, hist>>

Emit == Len(hist) # Depth \/ PrintT(<<"@@HIST@@", ToJson(hist)>>)
=============================================================================
