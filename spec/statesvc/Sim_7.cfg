SPECIFICATION SimSpec
CONSTANTS
  NN = 7
  NodeKey <- NK7
  Keys <- K9
  Sets <- SetsU
  MaxH = 4
  MaxD = 2
  Win = 10
  MaxR = 1
  MaxLag = 2
  MaxBehind = 2
  Base = 2
  AdvV <- AllV
  AdvR <- AllR
  MaxAdv = 10
  MaxRestart = 1
  WithTimer = FALSE
  HeightBack = FALSE
  KeyQuirk = FALSE
  BugVoteTwice = FALSE
  BugOldSet = FALSE
  BugWrongMsg = FALSE
  BugFewer = FALSE
  BugNoMismatch = FALSE
  BugNoWitness = FALSE
  BugKeepForever = FALSE
  StaleSv = FALSE
  BugSendUnverified = FALSE
  Depth = 110
INVARIANT Emit
CHECK_DEADLOCK FALSE
