---------------------------- MODULE MCStateSvc ----------------------------
(* Universes of the exhaustive runs of StateSvcImpl.  Keys are numbered in public key order (= validator index order);
   node n holds NodeKey[n]; keys nobody holds belong to the adversary (or to a silent validator). *)
EXTENDS StateSvcImpl

NK0  == <<0>>
NK00 == <<0, 0>>
NK2  == <<2>>
NK12 == <<1, 2>>
NK23 == <<2, 3>>
NK123 == <<1, 2, 3>>
NK3  == <<1, 2, 3>>
NK4  == <<1, 2, 3, 4>>
K4   == 1..4
K5   == 1..5
K6   == 1..6
\* (a) one change: {1,2,3,4} (3 of 4; key 4 is nobody's) -> {2,3,4} (3 of 3)
SetsA == << <<1, 2, 3, 4>>, <<2, 3, 4>> >>
\* (b) two changes, overlapping sets of four
SetsB == << <<1, 2, 3, 4>>, <<2, 3, 4, 5>>, <<1, 3, 4, 5>> >>
\* (c) small sets: 1 of 1, 2 of 2, 3 of 3
SetsC == << <<1>>, <<1, 2>>, <<1, 2, 3>> >>
SetsC2 == << <<1>>, <<1, 2>> >>
\* (d) no change at all
SetsD == << <<1, 2, 3, 4>> >>
NK7  == <<1, 2, 3, 4, 5, 6, 7>>
K9   == 1..9
\* subsets of the nodes' keys: 3 of 4 -> 3 of 3 -> 4 of 5
SetsT == << <<1, 2, 3, 4>>, <<1, 2, 3>>, <<2, 3, 4, 5, 6>> >>
\* seven nodes: 5 of 7 -> 5 of 7 (two foreign keys) -> 4 of 5
SetsU == << <<1, 2, 3, 4, 5, 6, 7>>, <<2, 3, 4, 5, 6, 8, 9>>, <<1, 3, 5, 7, 9>> >>
SetsS == << <<1, 2, 3, 4>>, <<2, 3, 4, 5>>, <<3, 4, 5, 6>> >>

NoAdv  == {}
AllV   == {"garbage", "otherheight", "fake", "wrongidx", "oldset", "byzgood"}
AllR   == {"good", "mismatch", "fewsig", "badsig", "lowm", "otherset", "nwit"}
SomeV  == {"otherheight", "fake", "oldset", "byzgood"}
SomeR  == {"good", "mismatch", "otherset", "badsig"}
GoodR  == {"good"}
SetR   == {"good", "otherset"}
ChgV   == {"otherheight", "oldset", "byzgood", "wrongidx"}
ByzV   == {"byzgood", "fake"}
IdxV   == {"wrongidx"}
=============================================================================
