SPECIFICATION Spec
CONSTANTS
  NN = 1
  NodeKey <- NK2
  Keys <- K4
  Sets <- SetsA
  MaxH = 2
  MaxD = 1
  Win = 2
  MaxR = 1
  MaxLag = 1
  MaxBehind = 2
  Base = 3
  AdvV <- IdxV
  AdvR <- NoAdv
  MaxAdv = 2
  MaxRestart = 0
  WithTimer = FALSE
  HeightBack = FALSE
  KeyQuirk = FALSE
  BugVoteTwice = FALSE
  BugOldSet = FALSE
  BugWrongMsg = FALSE
  BugFewer = FALSE
  BugNoMismatch = FALSE
  BugNoWitness = FALSE
  BugKeepForever = FALSE
  StaleSv = TRUE
  BugSendUnverified = TRUE
INVARIANTS AbsInv OwnVotesTrimmed
PROPERTIES AbsStep
CHECK_DEADLOCK FALSE
