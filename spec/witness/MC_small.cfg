\* exhaustive enumeration of family "small": every signer configuration of the family x every call context
\* with up to 2 links below the entry script x every account; invariant ImplAgrees = Impl => Abstract
SPECIFICATION Spec
CONSTANTS
  Family = "small"
  Deviation = "none"
  MaxLinks = 2
INVARIANTS ImplAgrees Emit
CHECK_DEADLOCK FALSE
