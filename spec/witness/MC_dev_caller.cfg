\* non-vacuity self-test: the named deviation "caller-from-stack" of the Impl model MUST be refuted (invariant ImplAgrees)
SPECIFICATION Spec
CONSTANTS
  Family = "small"
  Deviation = "caller-from-stack"
  MaxLinks = 2
INVARIANTS ImplAgrees
CHECK_DEADLOCK FALSE
