\* exhaustive enumeration of family "subject": all its signer configurations x all call contexts (MaxLinks = 3)
SPECIFICATION Spec
CONSTANTS
  Family = "subject"
  Deviation = "none"
  MaxLinks = 3
INVARIANTS ImplAgrees Emit
CHECK_DEADLOCK FALSE
