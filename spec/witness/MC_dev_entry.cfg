\* non-vacuity self-test: the named deviation "entry-only" of the Impl model MUST be refuted (invariant ImplAgrees)
SPECIFICATION Spec
CONSTANTS
  Family = "small"
  Deviation = "entry-only"
  MaxLinks = 2
INVARIANTS ImplAgrees
CHECK_DEADLOCK FALSE
