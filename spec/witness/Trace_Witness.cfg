SPECIFICATION TraceSpec
POSTCONDITION AllJudged
CHECK_DEADLOCK FALSE
