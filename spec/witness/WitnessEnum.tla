----------------------------- MODULE WitnessEnum -----------------------------
(* C15 - exhaustive enumeration: signer configurations x call contexts.

   One TLC state per signer configuration of the selected Family.  For each state TLC computes, for EVERY
   call context of the universe (all link sequences up to MaxLinks over the deployed probe contracts A
   (no group), B (group G1), C (groups G1, G2), the dynamic script D, the native GAS contract as caller
   (nX = GAS.transfer hop into X.onNEP17Payment), a leaf frame without ReadStates (qX), and the native
   contract's own check (.g)) and for every account of Accts:
      - the answer of the ABSTRACT specification Witness!CodeX       (printed: the oracle for real code;
        0/2 must refuse, 1 must grant, 3 may do either, packed base 4 per context)
      - the answer of the implementation-shaped model WitnessImpl    (checked: ImplAgrees)
   and prints the case as JSON (marker @@CASE@@).  The universe itself is printed once (kind "universe").

   Context ids:  "e" ("." link)*  [".g"],  link = cX | nX | qX | dyn | dye,  e.g. "e.cA.nB.dyn", "e.cA.g". *)
EXTENDS Integers, Sequences, FiniteSets, TLC, Json

CONSTANTS Family,      \* which family of signer configurations
          Deviation,   \* "none", or a named deviation of the Impl model (non-vacuity self-tests)
          MaxLinks     \* call chains have up to MaxLinks links below the entry script

W == INSTANCE Witness
M == INSTANCE WitnessImpl

----------------------------------------------------------------------------
(* universe of scripts *)
Tbl == [A |-> <<>>, B |-> <<"G1">>, C |-> <<"G1", "G2">>, GAS |-> <<>>]    \* deployed contracts -> groups
Contracts == <<"A", "B", "C">>
Frame(name, kind, rs) ==
    [name |-> name, groups |-> IF name \in DOMAIN Tbl THEN Tbl[name] ELSE <<>>, rs |-> rs, kind |-> kind]

Lk(k, n) == [k |-> k, n |-> n]
\* "dye" loads a dynamic COPY OF THE ENTRY SCRIPT (same hash as the entry script, but not the entry context); it is part
\* of the universes of the std and small families only
LinkSeq == << Lk("c", "A"), Lk("c", "B"), Lk("c", "C"), Lk("n", "A"), Lk("n", "B"), Lk("n", "C"), Lk("dyn", "D") >>
           \o (IF Family \in {"std", "small"} THEN << Lk("dyn", "E") >> ELSE <<>>)
LinkId(l) == IF l.k = "dyn" THEN (IF l.n = "E" THEN "dye" ELSE "dyn") ELSE l.k \o l.n

RECURSIVE Flat(_)
Flat(ss) == IF ss = <<>> THEN <<>> ELSE Head(ss) \o Flat(Tail(ss))

HasDyn(ls) == \E i \in DOMAIN ls : ls[i].k = "dyn"
\* a dynamic script runs with read-only flags: everything below it cannot transfer GAS
Valid(ls) == \A i \in DOMAIN ls : ls[i].k = "n" => ~HasDyn(SubSeq(ls, 1, i - 1))

Ext(ls) == SelectSeq([j \in DOMAIN LinkSeq |-> Append(ls, LinkSeq[j])], Valid)
RECURSIVE SeqsOfLen(_)
SeqsOfLen(n) == IF n = 0 THEN << <<>> >>
                ELSE LET p == SeqsOfLen(n - 1) IN Flat([i \in DOMAIN p |-> Ext(p[i])])

AllSeqs   == Flat([n \in 1..(MaxLinks + 1) |-> SeqsOfLen(n - 1)])
ShortSeqs == Flat([n \in 1..MaxLinks |-> SeqsOfLen(n - 1)])
QSeqs     == Flat([i \in DOMAIN ShortSeqs |-> [j \in DOMAIN Contracts |-> Append(ShortSeqs[i], Lk("q", Contracts[j]))]])
FullSeqs  == SelectSeq(AllSeqs, LAMBDA ls : ~HasDyn(ls))

RECURSIVE Expand(_, _)
Expand(ls, i) ==
    IF i > Len(ls) THEN <<>>
    ELSE (CASE ls[i].k = "c"   -> << Frame(ls[i].n, "call", TRUE) >>
            [] ls[i].k = "q"   -> << Frame(ls[i].n, "call", FALSE) >>
            [] ls[i].k = "n"   -> << Frame("GAS", "native", TRUE), Frame(ls[i].n, "onpay", TRUE) >>
            [] ls[i].k = "dyn" -> << Frame(ls[i].n, "dyn", TRUE) >>) \o Expand(ls, i + 1)
Chain(ls) == << Frame("E", "entry", TRUE) >> \o Expand(ls, 1)

RECURSIVE IdFrom(_, _)
IdFrom(ls, i) == IF i > Len(ls) THEN "" ELSE "." \o LinkId(ls[i]) \o IdFrom(ls, i + 1)
Id(ls) == "e" \o IdFrom(ls, 1)

CtxSeq ==
       [i \in DOMAIN AllSeqs  |-> [id |-> Id(AllSeqs[i]), chain |-> Chain(AllSeqs[i])]]
    \o [i \in DOMAIN QSeqs    |-> [id |-> Id(QSeqs[i]), chain |-> Chain(QSeqs[i])]]
    \o [i \in DOMAIN FullSeqs |-> [id |-> Id(FullSeqs[i]) \o ".g",
                                   chain |-> Append(Chain(FullSeqs[i]), Frame("GAS", "native", TRUE))]]
NCtx == Len(CtxSeq)
\* evaluated once: what the two levels see of every context
AbsCtx == [i \in 1..NCtx |-> W!Ctx(CtxSeq[i].chain)]
ImpCtx == [i \in 1..NCtx |-> M!IStack(CtxSeq[i].chain)]

(* accounts asked for in every context *)
\* (the rule families vary only the subject's rules: the other signers' accounts are covered by the other families)
Accts == IF Family \in {"rules1", "rules2", "rules"} THEN << "S", "X", "caller" >>
         ELSE << "S", "P", "T", "X", "caller", "current", "entry" >>
Resolve(a, x) ==
    CASE a = "caller"  -> IF x.caller = W!NoCaller THEN "Z" ELSE x.caller
      [] a = "current" -> x.cur
      [] a = "entry"   -> "E"
      [] OTHER         -> a
AcctOf == [i \in 1..NCtx |-> [k \in DOMAIN Accts |-> Resolve(Accts[k], AbsCtx[i])]]     \* "S" = the subject

----------------------------------------------------------------------------
(* signer configurations *)
Sg(acct, scopes, contracts, groups, rules) ==
    [account |-> acct, scopes |-> scopes, contracts |-> contracts, groups |-> groups, rules |-> rules]
Payer  == Sg("P", <<>>, <<>>, <<>>, <<>>)
Global == Sg("T", <<"Global">>, <<>>, <<>>, <<>>)
Cfg(s, pos) == [subj |-> s.account,
                signers |-> CASE pos = 1 -> <<s, Payer, Global>>
                              [] pos = 2 -> <<Payer, s, Global>>
                              [] pos = 3 -> <<Payer, Global, s>>]
Std(s) == Cfg(s, 2)

HS == {"A", "B", "C", "E", "D", "GAS"}
GS == {"G1", "G2", "G3"}
Acts == {"Allow", "Deny"}
Atoms == {W!CBool(TRUE), W!CBool(FALSE), W!CEntry}
         \cup {W!CHash(h) : h \in HS} \cup {W!CCaller(h) : h \in HS}
         \cup {W!CGroup(g) : g \in GS} \cup {W!CCallerG(g) : g \in GS}
Depth2 == Atoms \cup {W!CNot(a) : a \in Atoms}
          \cup {W!CAnd(<<a, b>>) : a \in Atoms, b \in Atoms} \cup {W!COr(<<a, b>>) : a \in Atoms, b \in Atoms}
CLists == {<<>>, <<"A", "B">>, <<"B", "C">>, <<"C", "E">>, <<"D", "GAS">>, <<"N", "A">>}
          \cup {<<h>> : h \in HS \cup {"N"}}
GLists == {<<>>, <<"G1">>, <<"G2">>, <<"G3">>, <<"G1", "G2">>, <<"G3", "G1">>, <<"G2", "G3">>}

RulesOnly(rl) == Std(Sg("S", <<"Rules">>, <<>>, <<>>, rl))

Basic == {Std(Sg("S", <<>>, <<>>, <<>>, <<>>)), Std(Sg("S", <<"Global">>, <<>>, <<>>, <<>>)),
          Std(Sg("S", <<"CalledByEntry">>, <<>>, <<>>, <<>>)), RulesOnly(<<>>)}
         \cup {Std(Sg("S", <<"CustomContracts">>, cl, <<>>, <<>>)) : cl \in CLists}
         \cup {Std(Sg("S", <<"CustomGroups">>, <<>>, gl, <<>>)) : gl \in GLists}
Rules1 == {RulesOnly(<<W!Rule(a, c)>>) : a \in Acts, c \in Depth2}
Rules2 == {RulesOnly(<<W!Rule(a1, c1), W!Rule(a2, c2)>>) : a1 \in Acts, c1 \in Atoms, a2 \in Acts, c2 \in Atoms}

MixedRules == { <<W!Rule("Deny", W!CHash("B")), W!Rule("Allow", W!CBool(TRUE))>>,
                <<W!Rule("Allow", W!CCaller("A"))>>,
                <<W!Rule("Deny", W!CEntry), W!Rule("Allow", W!CGroup("G1"))>>,
                <<W!Rule("Allow", W!CNot(W!CCallerG("G1")))>>,
                <<W!Rule("Deny", W!CBool(TRUE))>>,
                <<W!Rule("Allow", W!CAnd(<<W!CEntry, W!CNot(W!CHash("E"))>>))>> }
ScopeSeq(e, c, g, r) == (IF e THEN <<"CalledByEntry">> ELSE <<>>) \o (IF c THEN <<"CustomContracts">> ELSE <<>>)
                        \o (IF g THEN <<"CustomGroups">> ELSE <<>>) \o (IF r THEN <<"Rules">> ELSE <<>>)
Mixed == {Std(Sg("S", ScopeSeq(e, c, g, r), IF c THEN cl ELSE <<>>, IF g THEN gl ELSE <<>>, IF r THEN rl ELSE <<>>)) :
              e \in BOOLEAN, c \in BOOLEAN, g \in BOOLEAN, r \in BOOLEAN,
              cl \in {<<"A">>, <<"B", "C">>}, gl \in {<<"G1">>, <<"G2", "G3">>, <<>>}, rl \in MixedRules}

(* who the subject is and where it stands in the signer list *)
SubjScopes(a) == { Sg(a, <<>>, <<>>, <<>>, <<>>), Sg(a, <<"Global">>, <<>>, <<>>, <<>>),
                   Sg(a, <<"CalledByEntry">>, <<>>, <<>>, <<>>), Sg(a, <<"CustomContracts">>, <<"B">>, <<>>, <<>>),
                   Sg(a, <<"CustomGroups">>, <<>>, <<"G2">>, <<>>),
                   Sg(a, <<"Rules">>, <<>>, <<>>, <<W!Rule("Deny", W!CCaller("A")), W!Rule("Allow", W!CBool(TRUE))>>),
                   Sg(a, <<"Rules">>, <<>>, <<>>, <<W!Rule("Allow", W!CHash("A"))>>),
                   Sg(a, <<"CalledByEntry", "Rules">>, <<>>, <<>>, <<W!Rule("Allow", W!CCallerG("G1"))>>) }
Subject == {Cfg(s, pos) : s \in UNION {SubjScopes(a) : a \in {"S", "A", "E", "GAS", "Z"}}, pos \in 1..3}

(* the all-zero hash (what the code uses for "no caller") as an operand *)
ZeroConds == {W!CCaller("Z"), W!CNot(W!CCaller("Z")), W!CHash("Z"), W!COr(<<W!CCaller("Z"), W!CHash("A")>>),
              W!CAnd(<<W!CEntry, W!CCaller("Z")>>), W!CAnd(<<W!CNot(W!CCaller("Z")), W!CEntry>>)}
ZeroFam == {RulesOnly(<<W!Rule(a, c)>>) : a \in Acts, c \in ZeroConds}
           \cup {Std(Sg("S", <<"CustomContracts">>, <<"Z">>, <<>>, <<>>)),
                 RulesOnly(<<W!Rule("Deny", W!CCaller("Z")), W!Rule("Allow", W!CBool(TRUE))>>)}

Configs ==
    CASE Family = "basic"   -> Basic
      [] Family = "rules1"  -> Rules1
      [] Family = "rules2"  -> Rules2
      [] Family = "mixed"   -> Mixed
      [] Family = "subject" -> Subject
      [] Family = "zero"    -> ZeroFam
      [] Family = "std"     -> Basic \cup Mixed \cup Subject \cup ZeroFam
      [] Family = "rules"   -> Rules1 \cup Rules2
      [] Family = "small"   -> Basic \cup ZeroFam \cup {Std(s) : s \in SubjScopes("S")}

----------------------------------------------------------------------------
VARIABLES cfg, out

Acct(c, i, k) == IF AcctOf[i][k] = "S" THEN c.subj ELSE AcctOf[i][k]
AbsTable(c) == [i \in 1..NCtx |-> [k \in DOMAIN Accts |-> W!CodeX(c.signers, Acct(c, i, k), AbsCtx[i])]]
ImpTable(c) == [i \in 1..NCtx |-> [k \in DOMAIN Accts |-> W!Code(M!ImplCheckSt(c.signers, Acct(c, i, k), ImpCtx[i], Tbl))]]

Todo == [exp |-> <<>>, imp |-> <<>>]
Init == cfg \in Configs /\ out = Todo
\* the evaluation is a transition so that TLC's workers share it (initial states are generated by one thread)
Next == /\ out = Todo
        /\ out' = [exp |-> AbsTable(cfg), imp |-> ImpTable(cfg)]
        /\ UNCHANGED cfg
Spec == Init /\ [][Next]_<<cfg, out>>

Pow4 == <<1, 4, 16, 64, 256, 1024, 4096, 16384>>
RECURSIVE PackFrom(_, _)
PackFrom(r, k) == IF k > Len(r) THEN 0 ELSE r[k] * Pow4[k] + PackFrom(r, k + 1)
Pack(r) == PackFrom(r, 1)

\* places where the Impl model's answer differs from the abstract one (as values; grant-differences are errors)
Diff == IF out = Todo THEN {} ELSE
        LET D == {<<i, k>> \in (DOMAIN CtxSeq) \X (DOMAIN Accts) : out.exp[i][k] # out.imp[i][k]} IN
        {<<d[1], d[2], out.imp[d[1]][d[2]]>> : d \in D}

(* Impl => Abstract: the implementation-shaped model grants only where the judge lets it (codes 1, 3) and
   wherever the judge demands it (code 1) *)
ImplAgrees == out # Todo => \A i \in DOMAIN CtxSeq : \A k \in DOMAIN Accts :
                  /\ out.exp[i][k] = 1 => out.imp[i][k] = 1
                  /\ out.imp[i][k] = 1 => out.exp[i][k] \in {1, 3}

Emit == out = Todo \/ PrintT(<<"@@CASE@@", ToJson([kind |-> "case", family |-> Family, subj |-> cfg.subj, signers |-> cfg.signers,
                                     exp |-> [i \in DOMAIN CtxSeq |-> Pack(out.exp[i])],
                                     impdiff |-> Diff])>>)

ASSUME PrintT(<<"@@CASE@@", ToJson([kind |-> "universe", accts |-> Accts, maxlinks |-> MaxLinks,
                                   ctx |-> CtxSeq])>>)
=============================================================================
