\* non-vacuity self-test: the named deviation "deny-ignored" of the Impl model MUST be refuted (invariant ImplAgrees)
SPECIFICATION Spec
CONSTANTS
  Family = "small"
  Deviation = "deny-ignored"
  MaxLinks = 2
INVARIANTS ImplAgrees
CHECK_DEADLOCK FALSE
