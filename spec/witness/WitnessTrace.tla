---------------------------- MODULE WitnessTrace ----------------------------
(* C15 - judges observations recorded from the REAL code (harness/c15wit) with the ABSTRACT specification.

   trace.ndjson:
     line 1   {"event":"init", "ctx":[{"id":..,"chain":[frame..]}..]}    the universe of call contexts as the
              harness realised it; groups of every frame are read back from the deployed manifests
     line l   {"event":"cfg", "subj":.., "signers":[..], "accts":[..], "obs":[[i, packed]..]}
              signers as decoded from the real transaction's bytes; obs = for context i (index into ctx) the
              observed results of System.Runtime.CheckWitness for accts (digit k-1 of packed, base 3:
              0 false, 1 true, 2 the execution faulted in the check)
              {"event":"match", "cond":.., "obs":[[i, r]..]}   result of transaction.WitnessCondition.Match
              against a stub MatchContext describing context i (0 false, 1 true, 2 error)
   The events are independent (the property is about a pure function), so every line is judged in its own
   behaviour: Init picks the line, Next judges it - TLC's workers share the lines.  AllJudged (POSTCONDITION)
   makes sure that every line was judged.  Failures are reported (@@FAIL@@), never blocking. *)
EXTENDS TraceIO, FiniteSets

W == INSTANCE Witness

VARIABLES l, done
vars == <<l, done>>

U == TLog[1]
Pow3 == <<1, 3, 9, 27, 81, 243, 729, 2187>>
Digit(n, k) == (n \div Pow3[k]) % 3

Resolve(a, x, subj) ==
    CASE a = "S"       -> subj
      [] a = "caller"  -> IF x.caller = W!NoCaller THEN "Z" ELSE x.caller
      [] a = "current" -> x.cur
      [] a = "entry"   -> "E"
      [] OTHER         -> a

\* observations of a cfg event that the abstract specification rejects:
\* observed success => MayGrant, observed refusal (false or fault) => ~MustGrant
BadAt(e, j) ==
    LET i  == e.obs[j][1]
        x  == W!Ctx(U.ctx[i].chain)
    IN {<<i, k>> : k \in {k \in DOMAIN e.accts :
            LET a == Resolve(e.accts[k], x, e.subj) IN
            IF Digit(e.obs[j][2], k) = 1 THEN ~W!MayGrantX(e.signers, a, x)
            ELSE W!MustGrantX(e.signers, a, x)}}
BadCfg(e) == UNION {BadAt(e, j) : j \in DOMAIN e.obs}

BadMatch(e) ==
    {e.obs[j][1] : j \in {j \in DOMAIN e.obs :
        (e.obs[j][2] = 1) # (W!Eval(e.cond, W!Ctx(U.ctx[e.obs[j][1]].chain)) = "T")}}

Describe(B) == {<<U.ctx[b[1]].id, b[2]>> : b \in B}

Judge(n) ==
    LET e == TLog[n] IN
    CASE e.event = "init"  -> TRUE
      [] e.event = "cfg"   -> LET bad == BadCfg(e) IN
                              Report(n, NameIf(bad = {}, "GrantedOnlyWhereAllowed"), [bad |-> Describe(bad)])
      [] e.event = "match" -> LET bad == BadMatch(e) IN
                              Report(n, NameIf(bad = {}, "ConditionMatches"), [bad |-> {U.ctx[i].id : i \in bad}])

Init == l \in 1..Len(TLog) /\ done = FALSE
Next == ~done /\ done' = TRUE /\ UNCHANGED l /\ Judge(l)
TraceSpec == Init /\ [][Next]_vars

AllJudged == TLCGet("stats").distinct = 2 * Len(TLog)
=============================================================================
