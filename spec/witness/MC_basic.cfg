\* exhaustive enumeration of family "basic": all its signer configurations x all call contexts (MaxLinks = 3)
SPECIFICATION Spec
CONSTANTS
  Family = "basic"
  Deviation = "none"
  MaxLinks = 3
INVARIANTS ImplAgrees Emit
CHECK_DEADLOCK FALSE
