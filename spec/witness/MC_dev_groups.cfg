\* non-vacuity self-test: the named deviation "groups-of-caller" of the Impl model MUST be refuted (invariant ImplAgrees)
SPECIFICATION Spec
CONSTANTS
  Family = "small"
  Deviation = "groups-of-caller"
  MaxLinks = 2
INVARIANTS ImplAgrees
CHECK_DEADLOCK FALSE
