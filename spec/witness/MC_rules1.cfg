\* exhaustive enumeration of family "rules1": all its signer configurations x all call contexts (MaxLinks = 3)
SPECIFICATION Spec
CONSTANTS
  Family = "rules1"
  Deviation = "none"
  MaxLinks = 3
INVARIANTS ImplAgrees Emit
CHECK_DEADLOCK FALSE
