\* exhaustive enumeration of family "rules2": all its signer configurations x all call contexts (MaxLinks = 3)
SPECIFICATION Spec
CONSTANTS
  Family = "rules2"
  Deviation = "none"
  MaxLinks = 3
INVARIANTS ImplAgrees Emit
CHECK_DEADLOCK FALSE
