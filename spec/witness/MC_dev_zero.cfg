\* non-vacuity self-test: the named deviation "zero-caller-matches" of the Impl model MUST be refuted (ImplAgrees)
SPECIFICATION Spec
CONSTANTS
  Family = "zero"
  Deviation = "zero-caller-matches"
  MaxLinks = 2
INVARIANTS ImplAgrees
CHECK_DEADLOCK FALSE
