\* non-vacuity self-test: the named deviation "zero-caller-matches" of the Impl model MUST be refuted (invariant ImplAgrees)
SPECIFICATION Spec
CONSTANTS
  Family = "small"
  Deviation = "zero-caller-matches"
  MaxLinks = 2
INVARIANTS ImplAgrees
CHECK_DEADLOCK FALSE
