\* exhaustive enumeration of family "std": every signer configuration of the family x every call context
\* with up to 3 links below the entry script x every account; invariant ImplAgrees = Impl => Abstract
SPECIFICATION Spec
CONSTANTS
  Family = "std"
  Deviation = "none"
  MaxLinks = 3
INVARIANTS ImplAgrees Emit
CHECK_DEADLOCK FALSE
