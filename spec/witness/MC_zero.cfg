\* exhaustive enumeration of family "zero": all its signer configurations x all call contexts (MaxLinks = 3)
SPECIFICATION Spec
CONSTANTS
  Family = "zero"
  Deviation = "none"
  MaxLinks = 3
INVARIANTS ImplAgrees Emit
CHECK_DEADLOCK FALSE
